import LibInj.Proofs.QuoteShift
import LibInj.Proofs.SqlCase
import LibInj.Proofs.Phrase
import LibInj.Proofs.FoldOK
import LibInj.Proofs.FingerprintOK
set_option linter.unusedSimpArgs false
set_option linter.unusedVariables false
/-! C12, fold half of the quote shift: the scanner state of the in-quote reading of `x`, mapped by `Φ`
(input `q :: x`, offsets + 1, the virtual opening quote made real), is the scanner state of the as-is
reading of `q :: x`, through `tokenize`, every fold rule, the loops and the fingerprint. -/
namespace LibInj.Sqli
open LibInj

/-- token of the in-quote reading ↦ token of the as-is reading: one byte further; the string token
that starts at offset 0 of the in-quote reading gets its opening quote. Empty slots stay empty. -/
def phiTok (q : UInt8) (t : Token) : Token :=
  if t.pos == 0 then (if t.strClose != 0 || t.len != 0 then { t with pos := 1, strOpen := q } else t)
  else { t with pos := t.pos + 1 }

@[simp] theorem phiTok_cat (q : UInt8) (t : Token) : (phiTok q t).cat = t.cat := by unfold phiTok; split <;> (try split) <;> rfl
@[simp] theorem phiTok_len (q : UInt8) (t : Token) : (phiTok q t).len = t.len := by unfold phiTok; split <;> (try split) <;> rfl
@[simp] theorem phiTok_val (q : UInt8) (t : Token) : (phiTok q t).val = t.val := by unfold phiTok; split <;> (try split) <;> rfl
@[simp] theorem phiTok_count (q : UInt8) (t : Token) : (phiTok q t).count = t.count := by unfold phiTok; split <;> (try split) <;> rfl
@[simp] theorem phiTok_strClose (q : UInt8) (t : Token) : (phiTok q t).strClose = t.strClose := by unfold phiTok; split <;> (try split) <;> rfl

theorem phiTok_open96 (q : UInt8) (hq : q ≠ 96) (t : Token) (h0 : t.pos = 0 → t.strOpen ≠ 96) :
    ((phiTok q t).strOpen == 96) = (t.strOpen == 96) := by
  unfold phiTok
  split
  · rename_i hp
    have hp' : t.pos = 0 := by simpa using hp
    split
    · show (q == 96) = (t.strOpen == 96)
      have := h0 hp'
      rw [beq_eq_false_iff_ne.mpr hq, beq_eq_false_iff_ne.mpr this]
    · rfl
  · rfl

theorem phiTok_empty (q : UInt8) : phiTok q {} = {} := rfl

/-- re-categorising commutes with the map (it never looks at the class) -/
theorem phiTok_withCat (q : UInt8) (t : Token) (c : UInt8) : phiTok q { t with cat := c } = { phiTok q t with cat := c } := by
  unfold phiTok
  simp only []
  split <;> (try split) <;> rfl

/-- the as-is flags with the same comment mode -/
def asIs (fl : Nat) : Nat :=
  if hasFlag fl flagMysql then (if hasFlag fl flagAnsi then 25 else 17) else (if hasFlag fl flagAnsi then 9 else 1)

theorem modeEq_asIs (fl : Nat) : ModeEq (asIs fl) fl := by
  unfold ModeEq asIs
  cases h1 : hasFlag fl flagMysql <;> cases h2 : hasFlag fl flagAnsi <;> simp only [Bool.false_eq_true, ↓reduceIte] <;> decide

theorem asIs_noquote (fl : Nat) : (hasFlag (asIs fl) flagQuoteSingle || hasFlag (asIs fl) flagQuoteDouble) = false := by
  unfold asIs
  cases hasFlag fl flagMysql <;> cases hasFlag fl flagAnsi <;> simp only [Bool.false_eq_true, ↓reduceIte] <;> decide

def phiS (q : UInt8) (s : State) : State :=
  { s with input := q :: s.input, flags := asIs s.flags, pos := s.pos + 1, tv := s.tv.map (phiTok q) }

def phiF (q : UInt8) (f : FS) : FS := { f with s := phiS q f.s, lastComment := phiTok q f.lastComment }

@[simp] theorem phiS_cur (q : UInt8) (s : State) : (phiS q s).cur = s.cur := rfl
@[simp] theorem phiS_toks (q : UInt8) (s : State) : (phiS q s).toks = s.toks := rfl
@[simp] theorem phiS_pos (q : UInt8) (s : State) : (phiS q s).pos = s.pos + 1 := rfl
@[simp] theorem phiS_input (q : UInt8) (s : State) : (phiS q s).input = q :: s.input := rfl
@[simp] theorem phiS_flags (q : UInt8) (s : State) : (phiS q s).flags = asIs s.flags := rfl
@[simp] theorem phiF_pos (q : UInt8) (f : FS) : (phiF q f).pos = f.pos := rfl
@[simp] theorem phiF_left (q : UInt8) (f : FS) : (phiF q f).left = f.left := rfl
@[simp] theorem phiF_more (q : UInt8) (f : FS) : (phiF q f).more = f.more := rfl
@[simp] theorem phiF_s (q : UInt8) (f : FS) : (phiF q f).s = phiS q f.s := rfl
@[simp] theorem phiF_lc (q : UInt8) (f : FS) : (phiF q f).lastComment = phiTok q f.lastComment := rfl

theorem tvGet_phi (q : UInt8) (s : State) (i : Nat) : tvGet (phiS q s) i = (tvGet s i).map (phiTok q) := by
  unfold tvGet phiS
  simp only [List.getElem?_map]
  cases s.tv[i]? <;> rfl

theorem tvSet_phi (q : UInt8) (s : State) (i : Nat) (t' t : Token) (h : t' = phiTok q t) :
    tvSet (phiS q s) i t' = (tvSet s i t).map (phiS q) := by
  rw [h]
  unfold tvSet phiS
  simp only [List.length_map]
  split
  · simp [Except.map, List.map_set]
  · rfl

theorem isUnaryOp_phi (q : UInt8) (t : Token) : (phiTok q t).isUnaryOp = t.isUnaryOp := by
  unfold Token.isUnaryOp
  simp only [phiTok_cat, phiTok_len, phiTok_val]

theorem isArithmeticOp_phi (q : UInt8) (t : Token) : (phiTok q t).isArithmeticOp = t.isArithmeticOp := by
  unfold Token.isArithmeticOp
  simp only [phiTok_cat, phiTok_len, phiTok_val]

theorem valOf_phi (q : UInt8) (t : Token) : valOf (phiTok q t) = valOf t := by
  unfold valOf
  simp only [phiTok_len, phiTok_val]

theorem isIfToken_phi (q : UInt8) (a b : Token) : isIfToken (phiTok q a) (phiTok q b) = isIfToken a b := by
  unfold isIfToken
  simp only [phiTok_cat, phiTok_val]

/-! ### no keyword starts with a space -/

def topNot32 (e : Tables.Entry) : Bool := Nat.beq e.1 0 || !(Nat.beq (e.2.1 / 256 ^ (e.1 - 1)) 32)

set_option maxRecDepth 200000 in
theorem keywords_topNot32 : Gen.keywords.all topNot32 = true := by decide +kernel

theorem keyNat_fold (u : Bytes) : ∀ (a : Nat),
    u.foldl (fun a c => a * 256 + c.toNat) a = a * 256 ^ u.length + u.foldl (fun a c => a * 256 + c.toNat) 0 ∧
    u.foldl (fun a c => a * 256 + c.toNat) 0 < 256 ^ u.length := by
  induction u with
  | nil => intro a; simp
  | cons c u ih =>
    intro a
    have hc : c.toNat < 256 := c.toNat_lt
    have h1 := ih (a * 256 + c.toNat)
    have h2 := ih (0 * 256 + c.toNat)
    simp only [List.foldl_cons, List.length_cons, Nat.pow_succ]
    constructor
    · rw [h1.1, h2.1]
      simp only [Nat.zero_mul, Nat.zero_add]
      rw [Nat.add_mul, Nat.mul_assoc, Nat.mul_comm 256 (256 ^ u.length), Nat.add_assoc]
    · rw [h2.1]
      simp only [Nat.zero_mul, Nat.zero_add]
      have := h2.2
      have hpos : 0 < 256 ^ u.length := Nat.pow_pos (by omega)
      calc c.toNat * 256 ^ u.length + u.foldl (fun a c => a * 256 + c.toNat) 0
          < c.toNat * 256 ^ u.length + 256 ^ u.length := by omega
        _ = (c.toNat + 1) * 256 ^ u.length := by rw [Nat.add_mul, Nat.one_mul]
        _ ≤ 256 * 256 ^ u.length := Nat.mul_le_mul_right _ (by omega)
        _ = 256 ^ u.length * 256 := Nat.mul_comm _ _

theorem searchKeyword_space (w : Bytes) : searchKeyword (32 :: w) = 0 := by
  rw [searchKeyword_eq]; unfold searchKeywordSpec
  have hu : goUpper (32 :: w) = 32 :: goUpper w := by
    rw [goUpper_cons_generic 32 w (by intro h; exact absurd h.1 (by decide)) (by intro h; exact absurd h.1 (by decide))]
    rfl
  simp only [hu]
  cases hl : lookupKw (32 :: goUpper w).length (keyNat (32 :: goUpper w)) with
  | none => rfl
  | some v =>
    exfalso
    have hm := lookupIn_some_mem _ _ _ _ hl
    have ht := List.all_eq_true.mp keywords_topNot32 _ hm
    simp only [topNot32, List.length_cons, Nat.add_sub_cancel, Bool.or_eq_true, Bool.not_eq_true'] at ht
    rcases ht with ht | ht
    · simp at ht
    · have hk := keyNat_fold (goUpper w) 32
      have e : keyNat (32 :: goUpper w) = 32 * 256 ^ (goUpper w).length + keyNat (goUpper w) := by
        unfold keyNat
        show (goUpper w).foldl (fun a c => a * 256 + c.toNat) (0 * 256 + (32 : UInt8).toNat) = _
        exact hk.1
      have hlt : keyNat (goUpper w) < 256 ^ (goUpper w).length := hk.2
      have hpos : 0 < 256 ^ (goUpper w).length := Nat.pow_pos (by omega)
      have hd : keyNat (32 :: goUpper w) / 256 ^ (goUpper w).length = 32 := by
        rw [e, Nat.mul_comm, Nat.mul_add_div hpos, Nat.div_eq_of_lt hlt]
      rw [hd] at ht
      cases ht

theorem assign_eq (t : Token) (c : UInt8) (p n : Nat) (v : Bytes) :
    assign t c p n v = (slice v 0 (if n < tokenSize then n else tokenSize - 1)).map
      (fun vv => { t with cat := c, pos := p, len := (if n < tokenSize then n else tokenSize - 1), val := vv }) := by
  unfold assign
  show (slice v 0 (if n < tokenSize then n else tokenSize - 1) >>= fun vv =>
    pure { t with cat := c, pos := p, len := (if n < tokenSize then n else tokenSize - 1), val := vv }) = _
  cases slice v 0 (if n < tokenSize then n else tokenSize - 1) <;> rfl

theorem assign_phi (q : UInt8) (a : Token) (ch : UInt8) (n : Nat) (v : Bytes) (hn : 1 ≤ n)
    (hfl : a.pos = 0 → (a.strClose != 0 || a.len != 0) = true) :
    assign (phiTok q a) ch (phiTok q a).pos n v = (assign a ch a.pos n v).map (phiTok q) := by
  rw [assign_eq, assign_eq]
  cases slice v 0 (if n < tokenSize then n else tokenSize - 1) with
  | error e => rfl
  | ok vv =>
    show Except.ok _ = Except.ok _
    congr 1
    have hlast : ((if n < tokenSize then n else tokenSize - 1) != 0) = true := by
      have : (if n < tokenSize then n else tokenSize - 1) ≠ 0 := by
        split
        · omega
        · decide
      simpa using this
    by_cases hp : (a.pos == 0) = true
    · have hp0 : a.pos = 0 := by simpa using hp
      have hf := hfl hp0
      unfold phiTok
      simp only [hp, hf, ↓reduceIte, hlast, Bool.or_true]
    · unfold phiTok
      simp only [hp, Bool.false_eq_true, ↓reduceIte]

theorem slice_zero (v : Bytes) : slice v 0 0 = .ok [] := by
  unfold slice; simp

theorem merge_phi (q : UInt8) (a b : Token) :
    merge (phiTok q a) (phiTok q b) = (merge a b).map (Option.map (phiTok q)) := by
  unfold merge
  simp only [phiTok_cat, phiTok_len, phiTok_val]
  refine iteM _ _ _ _ _ _ rfl ?_
  refine iteM _ _ _ _ _ _ rfl ?_
  refine iteM _ _ _ _ _ _ rfl ?_
  cases hx : slice a.val 0 a.len with
  | error e => rfl
  | ok x =>
    cases hy : slice b.val 0 b.len with
    | error e => rfl
    | ok y =>
      simp only [ok_bind]
      by_cases hch : (searchKeyword (x ++ [32] ++ y) != 0) = true
      · simp only [hch, ↓reduceIte]
        have hfl : a.pos = 0 → (a.strClose != 0 || a.len != 0) = true := by
          intro _
          cases hl : (a.len != 0) with
          | true => simp
          | false =>
            exfalso
            have hl0 : a.len = 0 := by simpa using hl
            rw [hl0, slice_zero] at hx
            cases hx
            have : searchKeyword ([] ++ [32] ++ y) = 0 := searchKeyword_space y
            rw [this] at hch
            exact absurd hch (by decide)
        rw [assign_phi q a _ _ _ (by simp only [List.length_append, List.length_cons, List.length_nil]; omega) hfl]
        cases assign a (searchKeyword (x ++ [32] ++ y)) a.pos (x ++ [32] ++ y).length (x ++ [32] ++ y) <;> rfl
      · simp only [hch, Bool.false_eq_true, ↓reduceIte]
        rfl

/-! ### the fold rules -/

section rules
variable (q : UInt8)

def phiStep : Step → Step
  | .cont f => .cont (phiF q f)
  | .brk f => .brk (phiF q f)
  | .ret n f => .ret n (phiF q f)

def phiTwo : Two → Two
  | .done s => .done (phiStep q s)
  | .next f => .next (phiF q f)

theorem dec_phiG (g f : FS) (k : Nat) (h : g = phiF q f) : g.dec k = (f.dec k).map (phiF q) := by
  rw [h]
  unfold FS.dec sub
  simp only [phiF_pos]
  by_cases hk : k ≤ f.pos
  · simp only [hk, ↓reduceIte]; rfl
  · simp only [hk, ↓reduceIte]; rfl

theorem tvSet_bindP {β : Type} (φ : β → β) (s : State) (i : Nat) (t' t : Token) (ht : t' = phiTok q t)
    (G1 G2 : State → M β) (h : ∀ s', G1 (phiS q s') = (G2 s').map φ) :
    (tvSet (phiS q s) i t' >>= G1) = (tvSet s i t >>= G2).map φ := by
  rw [tvSet_phi q s i t' t ht]; exact bmG2 φ _ _ G1 G2 h

theorem dec_bindP {β : Type} (φ : β → β) (g f : FS) (k : Nat) (hg : g = phiF q f)
    (G1 G2 : FS → M β) (h : ∀ x, G1 (phiF q x) = (G2 x).map φ) :
    (g.dec k >>= G1) = (f.dec k >>= G2).map φ := by
  rw [dec_phiG q g f k hg]; exact bmG2 φ _ _ G1 G2 h

theorem matchOptG {β : Type} (m : Token → Token) (φ : β → β) (o : Option Token) (S S' : Token → M β) (N N' : M β)
    (hS : ∀ t, S (m t) = (S' t).map φ) (hN : N = N'.map φ) :
    (match o.map m with | some t => S t | none => N) = (match o with | some t => S' t | none => N').map φ := by
  cases o with
  | none => exact hN
  | some t => exact hS t

end rules

macro "leafdecP" q:term:max f:term:max : tactic =>
  `(tactic| exact dec_bindP $q _ _ $f _ rfl _ _ (fun x => rfl))

macro "leafsetdecP" q:term:max f:term:max t:term:max : tactic =>
  `(tactic| (refine tvSet_bindP $q _ _ _ _ $t rfl _ _ (fun s' => ?_);
             exact dec_bindP $q _ _ { $f with s := s' } _ rfl _ _ (fun x => rfl)))

theorem foldThree_phi (q : UInt8) (f : FS) : foldThree (phiF q f) = (foldThree f).map (phiStep q) := by
  unfold foldThree
  simp only [phiF_s, phiF_left, tvGet_phi]
  refine bmG2 _ _ _ _ _ (fun a => ?_)
  refine bmG2 _ _ _ _ _ (fun b => ?_)
  refine bmG2 _ _ _ _ _ (fun c => ?_)
  simp only [isUnaryOp_phi, phiTok_cat, valOf_phi]
  refine bmG _ _ _ _ (fun bUnary => ?_)
  refine iteM _ _ _ _ _ _ (by leafdecP q f) ?_
  refine iteM _ _ _ _ _ _ (by leafdecP q f) ?_
  refine iteM _ _ _ _ _ _ (by leafdecP q f) ?_
  refine iteM _ _ _ _ _ _ (by leafdecP q f) ?_
  refine iteM _ _ _ _ _ _ (by leafdecP q f) ?_
  refine bmG _ _ _ _ (fun vb => ?_)
  refine iteM _ _ _ _ _ _ (by leafdecP q f) ?_
  refine iteM _ _ _ _ _ _ (by leafdecP q f) ?_
  refine iteM _ _ _ _ _ _ (by leafsetdecP q f c) ?_
  refine iteM _ _ _ _ _ _ (by leafsetdecP q f c) ?_
  refine iteM _ _ _ _ _ _ (by leafsetdecP q f c) ?_
  refine iteM _ _ _ _ _ _ (by leafsetdecP q f c) ?_
  refine iteM _ _ _ _ _ _ (by leafdecP q f) ?_
  refine iteM _ _ _ _ _ _ (by leafsetdecP q f c) ?_
  refine bmG3 _ _ _ (phiF q) _ _ ?_ (fun f' => rfl)
  refine iteM _ _ _ _ _ _ ?_ rfl
  refine bmG _ _ _ _ (fun va => ?_)
  refine iteM _ _ _ _ _ _ ?_ rfl
  exact tvSet_bindP q _ _ _ _ { a with cat := 110 } (phiTok_withCat q a 110).symm _ _ (fun s' => rfl)

theorem foldTwo_phi (q : UInt8) (f : FS) : foldTwo (phiF q f) = (foldTwo f).map (phiTwo q) := by
  unfold foldTwo
  simp only [phiF_s, phiF_left, tvGet_phi]
  refine bmG2 _ _ _ _ _ (fun a => ?_)
  refine bmG2 _ _ _ _ _ (fun b => ?_)
  simp only [isUnaryOp_phi, isArithmeticOp_phi, phiTok_cat, phiTok_len, phiTok_val, valOf_phi, merge_phi, isIfToken_phi]
  refine bmG _ _ _ _ (fun bUnary => ?_)
  refine iteM _ _ _ _ _ _ (by leafdecP q f) ?_
  refine iteM _ _ _ _ _ _ (by leafdecP q f) ?_
  refine iteM _ _ _ _ _ _ (by leafdecP q f) ?_
  refine iteM _ _ _ _ _ _ (by leafdecP q f) ?_
  refine bmG2 _ _ _ _ _ (fun o => ?_)
  refine matchOptG _ _ _ _ _ _ _ (fun a' => ?_) ?_
  · leafsetdecP q f a'
  refine bmG _ _ _ _ (fun isIF => ?_)
  refine iteM _ _ _ _ _ _ ?_ ?_
  · (refine tvSet_bindP q _ _ _ _ { b with cat := 84 } (by unfold phiTok; simp only []; split <;> (try split) <;> rfl) _ _ (fun s' => ?_); rfl)
  refine bmG _ _ _ _ (fun av => ?_)
  refine iteM _ _ _ _ _ _ ?_ ?_
  · (refine tvSet_bindP q _ _ _ _ { a with cat := 102 } (by unfold phiTok; simp only []; split <;> (try split) <;> rfl) _ _ (fun s' => ?_); rfl)
  refine iteM _ _ _ _ _ _ ?_ ?_
  · (refine tvSet_bindP q _ _ _ _ { a with cat := if b.cat == 40 then 111 else 110 } (by unfold phiTok; simp only []; split <;> (try split) <;> rfl) _ _ (fun s' => ?_); rfl)
  refine iteM _ _ _ _ _ _ ?_ ?_
  · refine iteM _ _ _ _ _ _ ?_ rfl
    (refine tvSet_bindP q _ _ _ _ { a with cat := 102 } (by unfold phiTok; simp only []; split <;> (try split) <;> rfl) _ _ (fun s' => ?_); rfl)
  refine iteM _ _ _ _ _ _ (by leafsetdecP q f b) ?_
  refine iteM _ _ _ _ _ _ ?_ ?_
  · refine iteM _ _ _ _ _ _ ?_ rfl
    (refine tvSet_bindP q _ _ _ _ { b with cat := 116 } (by unfold phiTok; simp only []; split <;> (try split) <;> rfl) _ _ (fun s' => ?_); rfl)
  refine iteM _ _ _ _ _ _ ?_ ?_
  · refine bmG _ _ _ _ (fun ar => ?_)
    refine iteM _ _ _ _ _ _ ?_ (by leafsetdecP q f b)
    (refine tvSet_bindP q _ _ _ _ { a with cat := 49 } (by unfold phiTok; simp only []; split <;> (try split) <;> rfl) _ _ (fun s' => ?_); rfl)
  refine iteM _ _ _ _ _ _ (by leafdecP q f) ?_
  refine iteM _ _ _ _ _ _ (by leafdecP q f) ?_
  refine iteM _ _ _ _ _ _ ?_ ?_
  · refine iteM _ _ _ _ _ _ ?_ (by leafdecP q f)
    (refine tvSet_bindP q _ _ _ _ { b with cat := 88 } (by unfold phiTok; simp only []; split <;> (try split) <;> rfl) _ _ (fun s' => ?_); rfl)
  refine iteM _ _ _ _ _ _ (by leafdecP q f) ?_
  rfl

theorem special5_phi (q : UInt8) (s : State) : special5 (phiS q s) = special5 s := by
  unfold special5
  simp only [tvGet_phi]
  cases tvGet s 0 <;> cases tvGet s 1 <;> cases tvGet s 2 <;> cases tvGet s 3 <;> cases tvGet s 4 <;>
    simp only [Except.map, bind, Except.bind, phiTok_cat]

theorem foldSpecial_phi (q : UInt8) (f : FS) : foldSpecial (phiF q f) = (foldSpecial f).map (phiF q) := by
  unfold foldSpecial
  simp only [phiF_pos, phiF_s, special5_phi, tvGet_phi]
  refine iteM _ _ _ _ _ _ ?_ rfl
  refine bmG _ _ _ _ (fun b => ?_)
  refine iteM _ _ _ _ _ _ ?_ rfl
  refine iteM _ _ _ _ _ _ ?_ rfl
  refine bmG2 _ _ _ _ _ (fun t5 => ?_)
  exact tvSet_bindP q _ _ _ _ t5 rfl _ _ (fun s' => rfl)

/-! ### tokenize -/

def mapTP (q : UInt8) (r : M (Bool × State)) : M (Bool × State) := r.map (fun p => (p.1, phiS q p.2))

theorem tvSet_pos (s s' : State) (i : Nat) (t : Token) (h : tvSet s i t = .ok s') : s'.pos = s.pos ∧ s'.flags = s.flags := by
  unfold tvSet at h
  split at h
  · cases h; exact ⟨rfl, rfl⟩
  · cases h

theorem phiTok_shift (q : UInt8) (t : Token) (p : Nat) (hp : 1 ≤ p) :
    ({ t with pos := t.pos + (p + 1) } : Token) = phiTok q { t with pos := t.pos + p } := by
  unfold phiTok
  have e : (t.pos + p == 0) = false := by rw [beq_eq_false_iff_ne]; omega
  simp only [e, Bool.false_eq_true, ↓reduceIte]
  show _ = ({ t with pos := t.pos + p + 1 } : Token)
  rfl

theorem phiS_adv (q : UInt8) (s1 : State) (n d h k : Nat) :
    ({ phiS q s1 with pos := (phiS q s1).pos + n, ddx := (phiS q s1).ddx + d, hash := (phiS q s1).hash + h, toks := (phiS q s1).toks + k } : State) =
    phiS q { s1 with pos := s1.pos + n, ddx := s1.ddx + d, hash := s1.hash + h, toks := s1.toks + k } := by
  unfold phiS
  simp only [Nat.add_right_comm]

theorem tokLoop_phi (q : UInt8) : ∀ (fuel : Nat) (s : State), 1 ≤ s.pos →
    tokLoop (phiS q s) fuel = mapTP q (tokLoop s fuel)
  | 0, _, _ => rfl
  | fuel + 1, s, hp => by
    have hm := modeEq_asIs s.flags
    unfold tokLoop
    simp only [phiS_pos, phiS_input, phiS_flags, phiS_cur, List.length_cons, Nat.add_lt_add_iff_right]
    refine iteM _ _ _ _ _ _ ?_ rfl
    have e1 : sliceFrom (q :: s.input) (s.pos + 1) = sliceFrom s.input s.pos := by
      unfold sliceFrom
      simp only [List.length_cons, Nat.add_le_add_iff_right, List.drop_succ_cons]
    rw [e1]
    cases hs : sliceFrom s.input s.pos with
    | error e => rfl
    | ok rest =>
      simp only [ok_bind]
      cases hc : at' rest 0 with
      | error e => rfl
      | ok c0 =>
        simp only [ok_bind, runP_mode (asIs s.flags) s.flags hm]
        cases hr : runP s.flags rest (dispatch c0) with
        | error e => rfl
        | ok r =>
          simp only [ok_bind]
          rw [tvSet_phi q s s.cur _ { r.tok with pos := r.tok.pos + s.pos } (phiTok_shift q r.tok s.pos hp)]
          cases hs1 : tvSet s s.cur { r.tok with pos := r.tok.pos + s.pos } with
          | error e => rfl
          | ok s1 =>
            obtain ⟨hp1, hf1⟩ := tvSet_pos _ _ _ _ hs1
            simp only [Except.map, ok_bind]
            have est := phiS_adv q s1 r.next r.ddx r.hash
            by_cases hcat : (r.tok.cat != 0) = true
            · simp only [hcat, ↓reduceIte]
              have := est 1
              show Except.ok (true, _) = Except.ok (true, _)
              rw [← this]
            · simp only [hcat, Bool.false_eq_true, ↓reduceIte]
              have h0 := est 0
              simp only [Nat.add_zero] at h0
              have := tokLoop_phi q fuel { s1 with pos := s1.pos + r.next, ddx := s1.ddx + r.ddx, hash := s1.hash + r.hash }
                (by show 1 ≤ s1.pos + r.next; rw [hp1]; omega)
              rw [← h0] at this
              exact this

/-! ### loop fuel is irrelevant once a loop returns -/

def LeG {α : Type} (X Y : M α) : Prop := ∀ r, X = .ok r → Y = .ok r

theorem leG_refl {α : Type} (X : M α) : LeG X X := fun _ h => h

theorem leG_bind {α β : Type} (x : M α) (f g : α → M β) (h : ∀ a, LeG (f a) (g a)) : LeG (x >>= f) (x >>= g) := by
  cases x with
  | error e => intro r hr; cases hr
  | ok a => exact h a

theorem leG_ite {α : Type} (c : Prop) [Decidable c] (A B A' B' : M α) (hA : LeG A A') (hB : LeG B B') :
    LeG (if c then A else B) (if c then A' else B') := by
  split
  · exact hA
  · exact hB

theorem tokLoop_mono : ∀ (fuel : Nat) (s : State), LeG (tokLoop s fuel) (tokLoop s (fuel + 1))
  | 0, _ => fun _ h => by cases h
  | fuel + 1, s => by
    unfold tokLoop
    refine leG_ite _ _ _ _ _ ?_ (leG_refl _)
    refine leG_bind _ _ _ (fun rest => ?_)
    refine leG_bind _ _ _ (fun c0 => ?_)
    refine leG_bind _ _ _ (fun r => ?_)
    refine leG_bind _ _ _ (fun s1 => ?_)
    refine leG_ite _ _ _ _ _ (leG_refl _) ?_
    exact tokLoop_mono fuel _

theorem tokenize_phi (q : UInt8) (s : State) (hp : 1 ≤ s.pos)
    (hinb : s.pos ≤ s.input.length) (hcur : s.cur < s.tv.length) :
    tokenize (phiS q s) = mapTP q (tokenize s) := by
  unfold tokenize
  have e1 : ((phiS q s).input.length == 0) = false := by
    rw [beq_eq_false_iff_ne]; simp
  have e2 : (s.input.length == 0) = false := by
    rw [beq_eq_false_iff_ne]; omega
  simp only [e1, e2, Bool.false_eq_true, ↓reduceIte, phiS_cur]
  rw [tvSet_phi q s s.cur {} {} (phiTok_empty q).symm, tvSet_ok s s.cur {} hcur]
  simp only [Except.map, ok_bind, phiS_pos, phiS_flags, asIs_noquote, Bool.and_false, Bool.false_eq_true, ↓reduceIte]
  have e3 : (s.pos == 0) = false := by rw [beq_eq_false_iff_ne]; omega
  simp only [e3, Bool.false_and, Bool.false_eq_true, ↓reduceIte, phiS_input, List.length_cons]
  obtain ⟨more, s', hr, _⟩ := tokLoop_ok (s.input.length + 1) { s with tv := s.tv.set s.cur {} } hinb
    (by simp; exact hcur) (by show s.input.length - s.pos < _; omega)
  have h2 := tokLoop_mono _ _ _ hr
  rw [tokLoop_phi q _ { s with tv := s.tv.set s.cur {} } hp]
  show mapTP q (tokLoop { s with tv := s.tv.set s.cur {} } (s.input.length + 1 + 1)) = mapTP q (tokLoop { s with tv := s.tv.set s.cur {} } (s.input.length + 1))
  rw [h2, hr]

/-! ### the loops -/

theorem fetch_phi (q : UInt8) (k : Nat) :
    ∀ (fuel : Nat) (f : FS), FInv f → 1 ≤ f.s.pos →
    fetch (phiF q f) k fuel = (fetch f k fuel).map (phiF q)
  | 0, _, _, _ => rfl
  | fuel + 1, f, hf, hp => by
    obtain ⟨hs, hlp, hp6, hlc⟩ := hf
    unfold fetch
    by_cases hc : (f.more && decide (f.pos ≤ maxTokens) && decide (f.pos - f.left < k)) = true
    · have hp5 : f.pos ≤ 5 := by
        simp only [Bool.and_eq_true, decide_eq_true_eq] at hc; exact hc.1.2
      obtain ⟨more, s', hr, hs', hstep⟩ := tokenize_sinv { f.s with cur := f.pos } ⟨hs.1, hs.2.1, hs.2.2⟩ (by show f.pos < 8; omega)
      obtain ⟨q1, q2, q3, q4, q5, q6, q7, q8, q9, q10, q11⟩ := hstep
      simp only at q1 q2 q3 q4 q5 q6 q7 q8 q9 q10
      have etk : tokenize { phiS q f.s with cur := f.pos } = mapTP q (tokenize { f.s with cur := f.pos }) :=
        tokenize_phi q { f.s with cur := f.pos } hp hs.2.1 (by show f.pos < f.s.tv.length; rw [hs.1]; omega)
      rw [if_pos hc, if_pos (show ((phiF q f).more && decide ((phiF q f).pos ≤ maxTokens) &&
        decide ((phiF q f).pos - (phiF q f).left < k)) = true from hc)]
      simp only [phiF_pos, phiF_left, phiF_more, phiF_s]
      rw [etk, hr]
      simp only [mapTP, Except.map, ok_bind]
      have hp' : 1 ≤ s'.pos := by omega
      cases more with
      | false =>
        simp only [Bool.false_eq_true, ↓reduceIte]
        exact fetch_phi q k fuel { f with s := s', more := false } ⟨hs', hlp, hp6, hlc⟩ hp'
      | true =>
        obtain ⟨hadv, t', ht', htc, ⟨ti, tlo, thi, _, tcat⟩⟩ := q8 rfl
        have hget : tvGet s' s'.cur = .ok t' := by
          unfold tvGet; rw [q3]; show (match s'.tv[f.pos]? with | some t => Except.ok t | none => Except.error Err.tv) = _; rw [ht']
        simp only [↓reduceIte, phiS_cur, tvGet_phi, hget, Except.map, ok_bind, phiTok_cat]
        by_cases hcm : (t'.cat == 99) = true
        · simp only [hcm, ↓reduceIte]
          exact fetch_phi q k fuel { f with s := s', more := true, lastComment := t' } ⟨hs', hlp, hp6, ⟨ti, tcat⟩⟩ hp'
        · simp only [hcm, Bool.false_eq_true, ↓reduceIte]
          have := fetch_phi q k fuel
            { f with s := s', more := true, lastComment := { f.lastComment with cat := 0 }, pos := f.pos + 1 }
            ⟨hs', by simp; omega, by simp; omega,
              hlc.recat 0 ⟨Or.inl rfl, (fun h => absurd h (by decide)), (fun h => absurd h (by decide))⟩⟩ hp'
          have e : phiTok q { f.lastComment with cat := 0 } = { phiTok q f.lastComment with cat := 0 } := phiTok_withCat q _ 0
          unfold phiF at this ⊢
          simp only [e] at this
          exact this
    · rw [if_neg hc, if_neg (show ¬ ((phiF q f).more && decide ((phiF q f).pos ≤ maxTokens) &&
        decide ((phiF q f).pos - (phiF q f).left < k)) = true from hc)]; rfl

theorem fetch_mono (k : Nat) : ∀ (fuel : Nat) (f : FS), LeG (fetch f k fuel) (fetch f k (fuel + 1))
  | 0, _ => fun _ h => by cases h
  | fuel + 1, f => by
    unfold fetch
    refine leG_ite _ _ _ _ _ ?_ (leG_refl _)
    refine leG_bind _ _ _ (fun p => ?_)
    refine leG_ite _ _ _ _ _ ?_ (fetch_mono k fuel _)
    refine leG_bind _ _ _ (fun cur => ?_)
    exact leG_ite _ _ _ _ _ (fetch_mono k fuel _) (fetch_mono k fuel _)

theorem foldLoop_mono : ∀ (fuel : Nat) (f : FS), LeG (foldLoop f fuel) (foldLoop f (fuel + 1))
  | 0, _ => fun _ h => by cases h
  | fuel + 1, f => by
    unfold foldLoop
    refine leG_bind _ _ _ (fun st => ?_)
    cases st with
    | cont f' => exact foldLoop_mono fuel f'
    | brk f' => exact leG_refl _
    | ret n f' => exact leG_refl _

theorem foldBody_phi (q : UInt8) (f : FS) (hf : FInv f) (hp : 1 ≤ f.s.pos) :
    foldBody (phiF q f) = (foldBody f).map (phiStep q) := by
  unfold foldBody
  rw [foldSpecial_phi]
  obtain ⟨f1, h1, hf1, hev1, _, _⟩ := foldSpecial_ok' f hf
  have hp1 : 1 ≤ f1.s.pos := by rw [hev1.2.1]; exact hp
  rw [h1]
  simp only [Except.map, ok_bind, phiF_more, phiF_left, phiF_pos, phiF_s, phiS_input, List.length_cons]
  refine iteM _ _ _ _ _ _ rfl ?_
  -- first fetch: one more unit of fuel on the longer input
  obtain ⟨f2, h2, hf2, _, _, _, hsp2, _⟩ := fetch_ok' 2 _ f1 hf1 (fetch_fuel_ok f1)
  have hp2 : 1 ≤ f2.s.pos := by omega
  have e2 : fetch (phiF q f1) 2 (fetchFuel (f1.s.input.length + 1)) = (fetch f1 2 (fetchFuel f1.s.input.length)).map (phiF q) := by
    show fetch (phiF q f1) 2 (fetchFuel f1.s.input.length + 1) = _
    rw [fetch_phi q 2 _ f1 hf1 hp1, fetch_mono 2 _ f1 _ h2, h2]
  rw [e2, h2]
  simp only [Except.map, ok_bind, phiF_more, phiF_left, phiF_pos, phiF_s, phiS_input, List.length_cons]
  by_cases c2 : f2.pos - f2.left < 2
  · simp only [c2, ↓reduceIte]; rfl
  simp only [c2, ↓reduceIte]
  rw [foldTwo_phi]
  obtain ⟨r, hr, hrok, _⟩ := foldTwo_ok f2 hf2 (by omega)
  rw [hr]
  cases r with
  | done st => rfl
  | next f3 =>
    obtain ⟨hf3, hi3, _, _, _, hsp3⟩ := hrok
    have hp3 : 1 ≤ f3.s.pos := by rw [hsp3]; exact hp2
    simp only [Except.map, ok_bind, phiTwo, phiF_s, phiS_input, List.length_cons]
    obtain ⟨f4, h4, hf4, _⟩ := fetch_ok' 3 _ f3 hf3 (fetch_fuel_ok f3)
    have e4 : fetch (phiF q f3) 3 (fetchFuel (f3.s.input.length + 1)) = (fetch f3 3 (fetchFuel f3.s.input.length)).map (phiF q) := by
      show fetch (phiF q f3) 3 (fetchFuel f3.s.input.length + 1) = _
      rw [fetch_phi q 3 _ f3 hf3 hp3, fetch_mono 3 _ f3 _ h4, h4]
    rw [e4, h4]
    simp only [Except.map, ok_bind, phiF_left, phiF_pos]
    refine iteM _ _ _ _ _ _ rfl ?_
    exact foldThree_phi q f4

def mapNFP (q : UInt8) (r : M (Nat × FS)) : M (Nat × FS) := r.map (fun p => (p.1, phiF q p.2))

theorem foldLoop_phi (q : UInt8) : ∀ (fuel : Nat) (f : FS), FInv f → 1 ≤ f.s.pos →
    foldLoop (phiF q f) fuel = mapNFP q (foldLoop f fuel)
  | 0, _, _, _ => rfl
  | fuel + 1, f, hf, hp => by
    unfold foldLoop
    rw [foldBody_phi q f hf hp]
    obtain ⟨st, hst, hbok⟩ := foldBody_ok f hf
    rw [hst]
    cases st with
    | cont f' =>
      simp only [Except.map, ok_bind, phiStep]
      exact foldLoop_phi q fuel f' hbok.1 (by have := hbok.2.2.2.2.1; omega)
    | brk f' =>
      simp only [Except.map, ok_bind, phiStep, phiF_left, phiF_lc, phiTok_cat, phiF_s]
      unfold mapNFP
      refine bmG3 _ _ _ (phiF q) _ _ ?_ (fun f'' => rfl)
      refine iteM _ _ _ _ _ _ ?_ rfl
      exact tvSet_bindP q _ _ _ _ f'.lastComment rfl _ _ (fun s' => rfl)
    | ret n f' => rfl

/-! ### the first token, the skip loop, `fold`, the fingerprint -/

/-- as-is reading of `q :: x`: the first byte dispatches to the string lexer -/
theorem tokenize_first_asis (x : Bytes) (q : UInt8) (F1 : Nat) (hq : q = 39 ∨ q = 34)
    (hF1 : (hasFlag F1 flagQuoteSingle || hasFlag F1 flagQuoteDouble) = false) (hF10 : F1 ≠ 0) :
    tokenize (sqliInit (q :: x) F1) = .ok (true,
      { (sqliInit (q :: x) F1) with
          tv := ((sqliInit (q :: x) F1).tv.set 0 {}).set 0 { (strTok x q 1 q).1 with pos := (strTok x q 1 q).1.pos + 0 },
          pos := 0 + (1 + (strTok x q 1 q).2), ddx := 0 + 0, hash := 0 + 0, toks := 0 + 1 }) := by
  have hq92 : q ≠ 92 := by rcases hq with rfl | rfl <;> decide
  have hdisp : dispatch q = .string := by rcases hq with rfl | rfl <;> decide +kernel
  have hfl1 : (sqliInit (q :: x) F1).flags = F1 := by simp [sqliInit, hF10]
  have spec1 := psc_eq (q :: x) 1 q hq92 (by simp)
  simp only [List.drop_succ_cons, List.drop_zero, Nat.lt_irrefl, ↓reduceIte, Nat.zero_lt_one, Nat.zero_add] at spec1
  unfold tokenize
  have hlen : ((sqliInit (q :: x) F1).input.length == 0) = false := by simp [sqliInit]
  have hcur : (sqliInit (q :: x) F1).cur < (sqliInit (q :: x) F1).tv.length := by simp [sqliInit]
  simp only [hlen, Bool.false_eq_true, ↓reduceIte, tvSet_ok _ _ _ hcur, bind, Except.bind, pure, Except.pure, hfl1, hF1,
    Bool.and_false]
  have hin : (sqliInit (q :: x) F1).input = q :: x := rfl
  have hp0 : (sqliInit (q :: x) F1).pos = 0 := rfl
  have hc0 : (sqliInit (q :: x) F1).cur = 0 := rfl
  unfold tokLoop
  simp only [hin, hp0, hc0, hfl1, List.length_cons, Nat.zero_lt_succ, ↓reduceIte, sliceFrom, Nat.zero_le, List.drop_zero, at',
    List.getElem?_cons_zero, bind, Except.bind, pure, Except.pure, hdisp, runP, parseString, spec1]
  rw [tvSet_ok _ _ _ (by simp [sqliInit])]
  simp only [strTok_cat, show ((115 : UInt8) != 0) = true by decide, ↓reduceIte]
  rfl

/-- in-quote reading of `x`: the virtual opening quote -/
theorem tokenize_first_inq (x : Bytes) (hx : x ≠ []) (q : UInt8) (F2 : Nat) (hq : q = 39 ∨ q = 34)
    (hF2 : (hasFlag F2 flagQuoteSingle || hasFlag F2 flagQuoteDouble) = true) (hF20 : F2 ≠ 0) (hd : flag2Delim F2 = q) :
    tokenize (sqliInit x F2) = .ok (true,
      { (sqliInit x F2) with tv := (((sqliInit x F2).tv.set 0 {}).set 0 ((strTok x q 0 0).1)),
                             pos := (strTok x q 0 0).2, toks := 0 + 1 }) := by
  have hxl : 1 ≤ x.length := by cases x with | nil => exact absurd rfl hx | cons _ _ => simp
  have hq92 : q ≠ 92 := by rcases hq with rfl | rfl <;> decide
  have hfl2 : (sqliInit x F2).flags = F2 := by simp [sqliInit, hF20]
  have spec2 := psc_eq x 0 q hq92 (by omega)
  simp only [List.drop_zero, Nat.lt_irrefl, ↓reduceIte, Nat.zero_add] at spec2
  unfold tokenize
  have hlen : ((sqliInit x F2).input.length == 0) = false := by simp [sqliInit]; omega
  have hcur : (sqliInit x F2).cur < (sqliInit x F2).tv.length := by simp [sqliInit]
  have hp0 : ((sqliInit x F2).pos == 0) = true := rfl
  simp only [hlen, Bool.false_eq_true, ↓reduceIte, tvSet_ok _ _ _ hcur, bind, Except.bind, pure, Except.pure, hfl2, hF2,
    hp0, Bool.and_self, hd]
  have hin : (sqliInit x F2).input = x := rfl
  have hc0 : (sqliInit x F2).cur = 0 := rfl
  simp only [hin, hc0, spec2]
  rw [tvSet_ok _ _ _ (by simp [sqliInit])]
  rfl

theorem phiTok_first (x : Bytes) (hx : x ≠ []) (q : UInt8) (hq : q = 39 ∨ q = 34) :
    phiTok q (strTok x q 0 0).1 = { (strTok x q 1 q).1 with pos := (strTok x q 1 q).1.pos + 0 } := by
  have hxl : 1 ≤ x.length := by cases x with | nil => exact absurd rfl hx | cons _ _ => simp
  have hq0 : (q != 0) = true := by rcases hq with rfl | rfl <;> decide
  unfold strTok
  cases Spec.closingQuote x q with
  | none =>
    have hc : (clip x.length != 0) = true := by
      have : clip x.length ≠ 0 := by unfold clip; split <;> first | omega | decide
      simpa using this
    unfold phiTok
    simp only [beq_self_eq_true, ↓reduceIte, hc, Bool.or_true]
  | some k =>
    unfold phiTok
    simp only [beq_self_eq_true, ↓reduceIte, hq0, Bool.true_or]

theorem state_eq (A B : State) (h1 : A.input = B.input) (h2 : A.flags = B.flags) (h3 : A.pos = B.pos) (h4 : A.tv = B.tv)
    (h5 : A.cur = B.cur) (h6 : A.fingerprint = B.fingerprint) (h7 : A.ddx = B.ddx) (h8 : A.hash = B.hash)
    (h9 : A.folds = B.folds) (h10 : A.toks = B.toks) : A = B := by
  cases A; cases B; simp_all

/-- **after the first token the as-is state is the image of the in-quote state** -/
theorem first_state_phi (x : Bytes) (hx : x ≠ []) (q : UInt8) (F1 F2 : Nat) (hq : q = 39 ∨ q = 34)
    (hF10 : F1 ≠ 0) (hF20 : F2 ≠ 0) (hFF : F1 = asIs F2) :
    ({ (sqliInit (q :: x) F1) with
          tv := ((sqliInit (q :: x) F1).tv.set 0 {}).set 0 { (strTok x q 1 q).1 with pos := (strTok x q 1 q).1.pos + 0 },
          pos := 0 + (1 + (strTok x q 1 q).2), ddx := 0 + 0, hash := 0 + 0, toks := 0 + 1 } : State) =
    phiS q { (sqliInit x F2) with tv := (((sqliInit x F2).tv.set 0 {}).set 0 ((strTok x q 0 0).1)),
                                  pos := (strTok x q 0 0).2, toks := 0 + 1 } := by
  have hfl1 : (sqliInit (q :: x) F1).flags = F1 := by simp [sqliInit, hF10]
  have hfl2 : (sqliInit x F2).flags = F2 := by simp [sqliInit, hF20]
  refine state_eq _ _ rfl ?_ ?_ ?_ rfl rfl rfl rfl rfl rfl
  · show (sqliInit (q :: x) F1).flags = asIs (sqliInit x F2).flags
    rw [hfl1, hfl2, hFF]
  · show 0 + (1 + (strTok x q 1 q).2) = (strTok x q 0 0).2 + 1
    rw [strTok_next x q 1 0 q 0]; omega
  · show ((List.replicate 8 ({} : Token)).set 0 {}).set 0 _ = (((List.replicate 8 ({} : Token)).set 0 {}).set 0 _).map (phiTok q)
    rw [← phiTok_first x hx q hq]
    rfl

theorem foldLoop_mono_add (f : FS) (fuel : Nat) : ∀ (k : Nat), LeG (foldLoop f fuel) (foldLoop f (fuel + k))
  | 0 => leG_refl _
  | k + 1 => fun r h => foldLoop_mono (fuel + k) f r (foldLoop_mono_add f fuel k r h)

/-- the leading skip loop stops at a string token -/
theorem skipLoop_first (s A : State) (T : Token) (fuel : Nat) (ht : tokenize s = .ok (true, A))
    (hg : tvGet A A.cur = .ok T) (hc : T.cat = 115) : skipLoop s (fuel + 1) = .ok (true, A) := by
  unfold skipLoop
  rw [ht]
  simp only [ok_bind, Bool.not_true, Bool.false_eq_true, ↓reduceIte, hg]
  unfold Token.isUnaryOp
  simp [hc, orM, toBool, g, bind, Except.bind, pure, Except.pure]

def mapNSP (q : UInt8) (r : M (Nat × State)) : M (Nat × State) := r.map (fun p => (p.1, phiS q p.2))

/-- **`fold` of the as-is reading of `q :: x` is the image of `fold` of the in-quote reading of `x`** -/
theorem fold_quote (x : Bytes) (hx : x ≠ []) (q : UInt8) (F1 F2 : Nat) (hq : q = 39 ∨ q = 34)
    (hF1 : (hasFlag F1 flagQuoteSingle || hasFlag F1 flagQuoteDouble) = false) (hF10 : F1 ≠ 0)
    (hF2 : (hasFlag F2 flagQuoteSingle || hasFlag F2 flagQuoteDouble) = true) (hF20 : F2 ≠ 0)
    (hd : flag2Delim F2 = q) (hFF : F1 = asIs F2) :
    fold (sqliInit (q :: x) F1) = mapNSP q (fold (sqliInit x F2)) := by
  have t1 := tokenize_first_asis x q F1 hq hF1 hF10
  have t2 := tokenize_first_inq x hx q F2 hq hF2 hF20 hd
  rw [first_state_phi x hx q F1 F2 hq hF10 hF20 hFF] at t1
  -- name the in-quote state after its first token
  generalize hA : ({ (sqliInit x F2) with tv := (((sqliInit x F2).tv.set 0 {}).set 0 ((strTok x q 0 0).1)), pos := (strTok x q 0 0).2, toks := 0 + 1 } : State) = A at t1 t2
  have hcur : A.cur = 0 := by rw [← hA]; rfl
  have hin : A.input = x := by rw [← hA]; rfl
  have hpos : 1 ≤ A.pos := by rw [← hA]; exact (strTok_bounds x hx q 0 0).1
  have hget : tvGet A A.cur = .ok (strTok x q 0 0).1 := by rw [← hA]; rfl
  obtain ⟨more', s', hr', hs', _⟩ := tokenize_sinv (sqliInit x F2) (sinv_init x F2) (by show 0 < 8; omega)
  have hsA : SInv A := by
    rw [t2] at hr'
    cases hr'
    exact hs'
  have sk2 : skipLoop (sqliInit x F2) ((sqliInit x F2).input.length + 1 + 1) = .ok (true, A) :=
    skipLoop_first _ A _ _ t2 hget (strTok_cat x q 0 0)
  have sk1 : skipLoop (sqliInit (q :: x) F1) ((sqliInit (q :: x) F1).input.length + 1 + 1) = .ok (true, phiS q A) :=
    skipLoop_first _ (phiS q A) (phiTok q (strTok x q 0 0).1) _ t1
      (by rw [phiS_cur, tvGet_phi, hget]; rfl) (by rw [phiTok_cat]; exact strTok_cat x q 0 0)
  unfold fold
  show (skipLoop (sqliInit (q :: x) F1) ((sqliInit (q :: x) F1).input.length + 1 + 1) >>= _) =
    mapNSP q (skipLoop (sqliInit x F2) ((sqliInit x F2).input.length + 1 + 1) >>= _)
  rw [sk1, sk2]
  simp only [ok_bind, Bool.not_true, Bool.false_eq_true, ↓reduceIte, phiS_input, List.length_cons]
  -- the main loop
  have hf0 : FInv { s := A, pos := 1, left := 0, more := true, lastComment := {} } :=
    ⟨hsA, Nat.zero_le _, by show 1 ≤ 6; omega, tokF_default⟩
  have hfuel : loopT { s := A, pos := 1, left := 0, more := true, lastComment := {} } < foldFuel A.input.length := by
    have hm := mu_le { s := A, pos := 1, left := 0, more := true, lastComment := {} } (by show 1 ≤ 6; omega)
    unfold loopT bigM foldFuel
    simp only [↓reduceIte]
    have : (A.input.length - A.pos) * 1015 ≤ 1015 * A.input.length := by
      have : A.input.length - A.pos ≤ A.input.length := Nat.sub_le _ _
      omega
    omega
  obtain ⟨n, f', h2, _⟩ := foldLoop_ok (foldFuel A.input.length) _ hf0 hfuel
  have e : foldFuel (A.input.length + 1) = foldFuel A.input.length + 1015 := by unfold foldFuel; omega
  have h3 := foldLoop_mono_add _ _ 1015 _ h2
  have hl := foldLoop_phi q (foldFuel A.input.length + 1015) { s := A, pos := 1, left := 0, more := true, lastComment := {} } hf0 hpos
  have e2 : phiF q { s := A, pos := 1, left := 0, more := true, lastComment := {} } =
      { s := phiS q A, pos := 1, left := 0, more := true, lastComment := {} } := rfl
  rw [e2] at hl
  rw [e, hl, h3, h2]
  rfl

theorem phiTok_recatCond (q : UInt8) (t : Token) :
    ((phiTok q t).cat == 110 && (phiTok q t).strOpen == 96 && (phiTok q t).len == 0 && (phiTok q t).strClose == 0) =
    (t.cat == 110 && t.strOpen == 96 && t.len == 0 && t.strClose == 0) := by
  simp only [phiTok_cat, phiTok_len, phiTok_strClose]
  by_cases hl : (t.len == 0) = true
  · by_cases hc : (t.strClose == 0) = true
    · have hl0 : t.len = 0 := by simpa using hl
      have hc0 : t.strClose = 0 := by simpa using hc
      have : (phiTok q t).strOpen = t.strOpen := by
        unfold phiTok
        simp only [hl0, hc0, bne_self_eq_false, Bool.or_self, Bool.false_eq_true, ↓reduceIte]
        split <;> rfl
      rw [this]
    · simp only [hc, Bool.and_false]
  · simp only [hl, Bool.and_false, Bool.false_and]

theorem recatLast_phi (q : UInt8) (s : State) (n : Nat) : recatLast (phiS q s) n = (recatLast s n).map (phiS q) := by
  unfold recatLast
  simp only [tvGet_phi]
  refine iteM _ _ _ _ _ _ ?_ rfl
  refine bmG2 _ _ _ _ _ (fun t => ?_)
  simp only [phiTok_recatCond]
  refine iteM _ _ _ _ _ _ ?_ rfl
  exact tvSet_phi q s _ _ { t with cat := 99 } (phiTok_withCat q t 99).symm

theorem buildFp_phi (q : UInt8) (s : State) (n : Nat) : ∀ (fuel i : Nat) (acc : Bytes),
    buildFp (phiS q s) n i acc fuel = buildFp s n i acc fuel
  | 0, _, _ => rfl
  | fuel + 1, i, acc => by
    unfold buildFp
    simp only [tvGet_phi]
    split
    · cases tvGet s i with
      | error e => rfl
      | ok t =>
        simp only [Except.map, ok_bind, phiTok_cat]
        by_cases h88 : (t.cat == 88) = true
        · simp only [h88, ↓reduceIte]
        · simp only [h88, Bool.false_eq_true, ↓reduceIte]
          exact buildFp_phi q s n fuel _ _
    · rfl

/-- **C12, quote shift: the two readings have the same fingerprint** -/
theorem fingerprint_quote (x : Bytes) (hx : x ≠ []) (q : UInt8) (F1 F2 : Nat) (hq : q = 39 ∨ q = 34)
    (hF1 : (hasFlag F1 flagQuoteSingle || hasFlag F1 flagQuoteDouble) = false) (hF10 : F1 ≠ 0)
    (hF2 : (hasFlag F2 flagQuoteSingle || hasFlag F2 flagQuoteDouble) = true) (hF20 : F2 ≠ 0)
    (hd : flag2Delim F2 = q) (hFF : F1 = asIs F2) :
    (fingerprint (q :: x) F1).map (·.fingerprint) = (fingerprint x F2).map (·.fingerprint) := by
  unfold fingerprint
  dsimp only []
  rw [fold_quote x hx q F1 F2 hq hF1 hF10 hF2 hF20 hd hFF]
  cases fold (sqliInit x F2) with
  | error e => rfl
  | ok p =>
    obtain ⟨n, s1⟩ := p
    simp only [mapNSP, Except.map, ok_bind, recatLast_phi]
    cases recatLast s1 n with
    | error e => rfl
    | ok s2 =>
      simp only [Except.map, ok_bind, buildFp_phi, tvGet_phi]
      cases buildFp s2 n 0 [] 8 with
      | error e => rfl
      | ok o =>
        simp only [ok_bind]
        cases o with
        | some fp => rfl
        | none =>
          simp only []
          cases tvGet s2 0 with
          | error e => rfl
          | ok t0 =>
            simp only [Except.map, ok_bind]
            unfold tvSet
            simp only [phiS, List.length_map]
            by_cases hl : 0 < s2.tv.length
            · simp only [hl, ↓reduceIte, ok_bind, pure, Except.pure, Except.map]
            · simp only [hl, ↓reduceIte]

/-! ### the verdict -/

theorem contains_quote (q : UInt8) (hq : q = 39 ∨ q = 34) (x : Bytes) :
    contains (q :: x) spPassword = contains x spPassword := by
  rw [contains_cons]
  have hsp : spPassword = 115 :: spPassword.tail := by decide +kernel
  have : isPrefix spPassword (q :: x) = false := by
    rw [hsp]
    show ((115 : UInt8) == q && isPrefix spPassword.tail x) = false
    have : ((115 : UInt8) == q) = false := by rcases hq with rfl | rfl <;> decide
    rw [this]; rfl
  rw [this, Bool.false_or]

theorem wlInto_phi (q : UInt8) (t : Token) : wlInto (phiTok q t) = wlInto t := by
  unfold wlInto
  simp only [phiTok_cat, phiTok_len, phiTok_val]

/-- the two-class whitelist, when the first token is not a number followed by a comment -/
theorem wlTwo_phi (q : UInt8) (s : State) (fp : Bytes) (h1c : ∀ t0 t1, tvGet s 0 = .ok t0 → tvGet s 1 = .ok t1 → ¬ (t0.cat = 49 ∧ t1.cat = 99)) :
    wlTwo (phiS q s) fp = wlTwo s fp := by
  unfold wlTwo
  simp only [tvGet_phi, phiS_toks]
  cases h0 : tvGet s 0 with
  | error e => rfl
  | ok t0 =>
    cases h1 : tvGet s 1 with
    | error e => rfl
    | ok t1 =>
      have hne := h1c t0 t1 h0 h1
      simp only [Except.map, ok_bind, phiTok_cat, phiTok_val, phiTok_len]
      split
      · rfl
      · cases at' t1.val 0 with
        | error e => rfl
        | ok v0 =>
          simp only [ok_bind]
          have hc : (t0.cat == 49 && t1.cat == 99) = false := by
            rw [Bool.eq_false_iff]
            intro h
            simp only [Bool.and_eq_true, beq_iff_eq] at h
            exact hne h
          have hc2 : (t0.cat == 49 && t1.cat == 99 && v0 != 47) = false := by rw [hc]; rfl
          simp only [hc, hc2, Bool.false_eq_true, ↓reduceIte]

/-- the three-class whitelist outside `sos` / `s&s` -/
theorem wlThree_phi (q : UInt8) (s : State) (fp : Bytes) (hs : (fp == bs "sos" || fp == bs "s&s") = false) :
    wlThree (phiS q s) fp = wlThree s fp := by
  unfold wlThree
  simp only [tvGet_phi, phiS_toks, hs, Bool.false_eq_true, ↓reduceIte]
  refine beq2 _ _ _ _ (fun t0 => ?_)
  refine beq2 _ _ _ _ (fun t1 => ?_)
  refine beq2 _ _ _ _ (fun t2 => ?_)
  simp only [wlInto_phi]

theorem checkFingerprint_phi (q : UInt8) (hq : q = 39 ∨ q = 34) (s : State)
    (hs : (s.fingerprint == bs "sos" || s.fingerprint == bs "s&s") = false)
    (h1c : s.fingerprint.length = 2 → ∀ t0 t1, tvGet s 0 = .ok t0 → tvGet s 1 = .ok t1 → ¬ (t0.cat = 49 ∧ t1.cat = 99)) :
    checkFingerprint (phiS q s) = checkFingerprint s := by
  unfold checkFingerprint
  have e1 : blacklist (phiS q s) = blacklist s := rfl
  rw [e1]
  refine (by
    by_cases hb : blacklist s = true
    · rw [if_pos hb, if_pos hb]
      unfold notWhitelist
      have e2 : (phiS q s).fingerprint = s.fingerprint := rfl
      simp only [e2, phiS_input, contains_quote q hq, wlThree_phi q s _ hs]
      by_cases h2 : (s.fingerprint.length == 2) = true
      · have h2' : s.fingerprint.length = 2 := by simpa using h2
        simp only [h2, ↓reduceIte, wlTwo_phi q s _ (h1c h2')]
      · simp only [h2, Bool.false_eq_true, ↓reduceIte]
    · rw [if_neg hb, if_neg hb])

/-- final states of the two readings: image under `phiS`, or both collapsed to the `X` fingerprint -/
def FinRel (q : UInt8) (st1 st2 : State) : Prop :=
  st1 = phiS q st2 ∨ (st1.fingerprint = [88] ∧ st2.fingerprint = [88] ∧ st1.ddx = st2.ddx ∧ st1.hash = st2.hash)

theorem fingerprint_quote_rel (x : Bytes) (hx : x ≠ []) (q : UInt8) (F1 F2 : Nat) (hq : q = 39 ∨ q = 34)
    (hF1 : (hasFlag F1 flagQuoteSingle || hasFlag F1 flagQuoteDouble) = false) (hF10 : F1 ≠ 0)
    (hF2 : (hasFlag F2 flagQuoteSingle || hasFlag F2 flagQuoteDouble) = true) (hF20 : F2 ≠ 0)
    (hd : flag2Delim F2 = q) (hFF : F1 = asIs F2) (st1 st2 : State)
    (h1 : fingerprint (q :: x) F1 = .ok st1) (h2 : fingerprint x F2 = .ok st2) : FinRel q st1 st2 := by
  unfold fingerprint at h1 h2
  dsimp only [] at h1 h2
  rw [fold_quote x hx q F1 F2 hq hF1 hF10 hF2 hF20 hd hFF] at h1
  cases hf : fold (sqliInit x F2) with
  | error e => rw [hf] at h2; cases h2
  | ok p =>
    obtain ⟨n, s1⟩ := p
    rw [hf] at h1 h2
    simp only [mapNSP, Except.map, ok_bind, recatLast_phi] at h1 h2
    cases hr : recatLast s1 n with
    | error e => rw [hr] at h2; cases h2
    | ok s2 =>
      rw [hr] at h1 h2
      simp only [Except.map, ok_bind, buildFp_phi, tvGet_phi] at h1 h2
      cases hb : buildFp s2 n 0 [] 8 with
      | error e => rw [hb] at h2; cases h2
      | ok o =>
        rw [hb] at h1 h2
        simp only [ok_bind] at h1 h2
        cases o with
        | some fp =>
          simp only [pure, Except.pure, Except.ok.injEq] at h1 h2
          left
          rw [← h1, ← h2]
          rfl
        | none =>
          simp only [] at h1 h2
          cases hg : tvGet s2 0 with
          | error e => rw [hg] at h2; cases h2
          | ok t0 =>
            rw [hg] at h1 h2
            simp only [Except.map, ok_bind] at h1 h2
            unfold tvSet at h1 h2
            simp only [phiS, List.length_map] at h1
            by_cases hl : 0 < s2.tv.length
            · simp only [hl, ↓reduceIte, ok_bind, pure, Except.pure, Except.ok.injEq] at h1 h2
              right
              rw [← h1, ← h2]
              exact ⟨rfl, rfl, rfl, rfl⟩
            · simp only [hl, ↓reduceIte] at h2
              cases h2

/-- a one-class fingerprint is never whitelisted -/
theorem checkFingerprint_one (s : State) (h : s.fingerprint.length = 1) : checkFingerprint s = .ok (blacklist s) := by
  unfold checkFingerprint notWhitelist
  simp only [h]
  cases blacklist s <;> rfl

/-- **C12, quote shift, verdicts**: the two readings have the same fingerprint and the same MySQL re-parse
flag, and the same verdict unless the fingerprint is `sos`, `s&s`, or the two-class `1c` (whose whitelist rule
reads the input at the offset of the first token) -/
theorem pass_quote (x : Bytes) (hx : x ≠ []) (q : UInt8) (F1 F2 : Nat) (hq : q = 39 ∨ q = 34)
    (hF1 : (hasFlag F1 flagQuoteSingle || hasFlag F1 flagQuoteDouble) = false) (hF10 : F1 ≠ 0)
    (hF2 : (hasFlag F2 flagQuoteSingle || hasFlag F2 flagQuoteDouble) = true) (hF20 : F2 ≠ 0)
    (hd : flag2Delim F2 = q) (hFF : F1 = asIs F2) (a b : Bool × Bytes × Bool)
    (ha : pass (q :: x) F1 = .ok a) (hb : pass x F2 = .ok b) :
    a.2.1 = b.2.1 ∧ a.2.2 = b.2.2 ∧
    (b.2.1 ≠ bs "sos" → b.2.1 ≠ bs "s&s" → b.2.1 ≠ [49, 99] → a.1 = b.1) := by
  obtain ⟨st1, h1, _⟩ := fingerprint_ok (q :: x) F1
  obtain ⟨st2, h2, hin2, hfp2⟩ := fingerprint_ok x F2
  have hrel := fingerprint_quote_rel x hx q F1 F2 hq hF1 hF10 hF2 hF20 hd hFF st1 st2 h1 h2
  unfold pass at ha hb
  rw [h1] at ha
  rw [h2] at hb
  simp only [ok_bind] at ha hb
  cases hc1 : checkFingerprint st1 with
  | error e => rw [hc1] at ha; cases ha
  | ok v1 =>
    cases hc2 : checkFingerprint st2 with
    | error e => rw [hc2] at hb; cases hb
    | ok v2 =>
      rw [hc1] at ha
      rw [hc2] at hb
      simp only [ok_bind, pure, Except.pure, Except.ok.injEq] at ha hb
      subst ha hb
      simp only []
      rcases hrel with hrel | ⟨r1, r2, r3, r4⟩
      · subst hrel
        refine ⟨rfl, rfl, fun n1 n2 n3 => ?_⟩
        have hs : (st2.fingerprint == bs "sos" || st2.fingerprint == bs "s&s") = false := by
          rw [Bool.or_eq_false_iff]
          exact ⟨by simpa using n1, by simpa using n2⟩
        have h1c : st2.fingerprint.length = 2 → ∀ t0 t1, tvGet st2 0 = .ok t0 → tvGet st2 1 = .ok t1 → ¬ (t0.cat = 49 ∧ t1.cat = 99) := by
          intro hlen t0 t1 g0 g1 hcat
          rcases hfp2 with hX | ⟨hw, n, _, hfp, _⟩
          · rw [hX] at hlen; simp at hlen
          · apply n3
            have hn : n = 2 := by
              have := congrArg List.length hfp
              have h8 := hw.1
              rw [hlen] at this
              simp only [List.length_map, List.length_take] at this
              omega
            rw [hfp, hn]
            have e0 : st2.tv[0]? = some t0 := by
              unfold tvGet at g0
              cases h : st2.tv[0]? with
              | none => rw [h] at g0; cases g0
              | some y => rw [h] at g0; cases g0; rfl
            have e1 : st2.tv[1]? = some t1 := by
              unfold tvGet at g1
              cases h : st2.tv[1]? with
              | none => rw [h] at g1; cases g1
              | some y => rw [h] at g1; cases g1; rfl
            match hv : st2.tv, e0, e1 with
            | y0 :: y1 :: rest, e0, e1 =>
              simp only [List.getElem?_cons_zero, List.getElem?_cons_succ, Option.some.injEq] at e0 e1
              subst e0 e1
              simp [hcat.1, hcat.2]
        have := checkFingerprint_phi q hq st2 hs h1c
        rw [this, hc2] at hc1
        exact (Except.ok.inj hc1).symm
      · refine ⟨by rw [r1, r2], by unfold reparseAsMySQL; rw [r3, r4], fun _ _ _ => ?_⟩
        have e1 := checkFingerprint_one st1 (by rw [r1]; rfl)
        have e2 := checkFingerprint_one st2 (by rw [r2]; rfl)
        have hbl : blacklist st1 = blacklist st2 := by unfold blacklist; rw [r1, r2]
        rw [e1] at hc1
        rw [e2] at hc2
        have := Except.ok.inj hc1
        have := Except.ok.inj hc2
        subst_vars
        exact hbl

end LibInj.Sqli
