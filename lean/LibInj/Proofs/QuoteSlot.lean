import LibInj.Proofs.QuoteFold
set_option linter.unusedSimpArgs false
set_option linter.unusedVariables false
/-! C12: in the in-quote reading the string token stays in slot 0 through `fold`, so the fingerprint
begins with `s` (or is `X`): the `1c` whitelist rule, which reads the input at the first token's offset,
is never reached by a quote reading. -/
namespace LibInj.Sqli
open LibInj

def PostP {α : Type} (P : α → Prop) (X : M α) : Prop := ∀ r, X = .ok r → P r

theorem post_bind {α β : Type} (Q : α → Prop) (P : β → Prop) (x : M α) (f : α → M β) (hx : PostP Q x)
    (hf : ∀ a, Q a → PostP P (f a)) : PostP P (x >>= f) := by
  intro r hr
  cases x with
  | error e => cases hr
  | ok a => exact hf a (hx a rfl) r hr

theorem post_any {α β : Type} (P : β → Prop) (x : M α) (f : α → M β) (hf : ∀ a, PostP P (f a)) : PostP P (x >>= f) :=
  post_bind (fun _ => True) P x f (fun _ _ => trivial) (fun a _ => hf a)

theorem post_ite {α : Type} (P : α → Prop) (c : Prop) [Decidable c] (A B : M α) (hA : c → PostP P A) (hB : ¬ c → PostP P B) :
    PostP P (if c then A else B) := by
  by_cases h : c
  · rw [if_pos h]; exact hA h
  · rw [if_neg h]; exact hB h

theorem post_pure {α : Type} (P : α → Prop) (a : α) (h : P a) : PostP P (pure a : M α) := by
  intro r hr; cases hr; exact h

/-- the string token of the quote reading sits in slot 0 -/
def Slot0 (s : State) : Prop := ∃ t, s.tv[0]? = some t ∧ t.cat = 115

def KF (f : FS) : Prop := Slot0 f.s ∧ 1 ≤ f.pos

theorem tvGet_post (s : State) (i : Nat) : PostP (fun t => s.tv[i]? = some t) (tvGet s i) := by
  intro t h
  unfold tvGet at h
  cases hh : s.tv[i]? with
  | none => rw [hh] at h; cases h
  | some y => rw [hh] at h; cases h; rfl

theorem tvSet_post (s : State) (i : Nat) (t : Token) (h0 : Slot0 s) (hi : i ≠ 0) :
    PostP (fun s' => Slot0 s' ∧ s'.input = s.input ∧ s'.cur = s.cur) (tvSet s i t) := by
  intro s' h
  unfold tvSet at h
  split at h
  · cases h
    obtain ⟨t0, ht0, hc⟩ := h0
    refine ⟨⟨t0, ?_, hc⟩, rfl, rfl⟩
    show (s.tv.set i t)[0]? = some t0
    rw [List.getElem?_set_ne (by omega)]
    exact ht0
  · cases h

theorem left_ne (s : State) (h0 : Slot0 s) (l : Nat) (a : Token) (ha : s.tv[l]? = some a) (hc : a.cat ≠ 115) : l ≠ 0 := by
  intro hl
  obtain ⟨t0, ht0, h115⟩ := h0
  rw [hl, ht0] at ha
  cases ha
  exact hc h115

theorem dec_post (f : FS) (k : Nat) : PostP (fun x => x = { f with pos := f.pos - k } ∧ k ≤ f.pos) (f.dec k) := by
  intro x h
  unfold FS.dec sub at h
  by_cases hk : k ≤ f.pos
  · simp only [hk, ↓reduceIte, bind, Except.bind, pure, Except.pure, Except.ok.injEq] at h
    exact ⟨h.symm, hk⟩
  · simp only [hk, ↓reduceIte, bind, Except.bind] at h
    cases h

theorem merge_some (a b a' : Token) (h : merge a b = .ok (some a')) : a.cat ≠ 115 := by
  intro hc
  unfold merge at h
  have : mergeA a.cat = false := by rw [hc]; decide
  simp [this, pure, Except.pure] at h

def KStep : Step → Prop
  | .cont f => KF f
  | .brk f => KF f ∧ 1 ≤ f.left
  | .ret _ f => Slot0 f.s

def KTwo : Two → Prop
  | .done st => KStep st
  | .next f => KF f

/-- leaf `(← f.dec k)` followed by bookkeeping that keeps the token vector and `pos` -/
theorem kdec_leaf {β : Type} (P : β → Prop) (f : FS) (k : Nat) (G : FS → β) (h : P (G { f with pos := f.pos - k })) :
    PostP P (f.dec k >>= fun x => pure (G x)) := by
  refine post_bind _ _ _ _ (dec_post _ _) ?_
  rintro x ⟨rfl, hk⟩
  exact post_pure _ _ h

macro "kdec" hK:term:max hb:term:max : tactic =>
  `(tactic| exact kdec_leaf _ _ _ _ ⟨$hK, $hb⟩)

theorem foldTwo_post (f : FS) (hK : KF f) (h2 : f.left + 2 ≤ f.pos) : PostP KTwo (foldTwo f) := by
  obtain ⟨h0, hp1⟩ := hK
  unfold foldTwo
  refine post_bind _ _ _ _ (tvGet_post f.s f.left) (fun a ha => ?_)
  refine post_bind _ _ _ _ (tvGet_post f.s (f.left + 1)) (fun b hb => ?_)
  refine post_any _ _ _ (fun bUnary => ?_)
  have d1 : 1 ≤ f.pos - 1 := by omega
  refine post_ite _ _ _ _ (fun _ => by kdec h0 d1) (fun _ => ?_)
  refine post_ite _ _ _ _ (fun _ => by kdec h0 d1) (fun _ => ?_)
  refine post_ite _ _ _ _ (fun _ => by kdec h0 d1) (fun _ => ?_)
  refine post_ite _ _ _ _ (fun _ => by kdec h0 d1) (fun _ => ?_)
  refine post_bind (fun o => ∀ a', o = some a' → a.cat ≠ 115) _ _ _ (fun o ho a' he => merge_some a b a' (by rw [ho, he])) (fun o ho => ?_)
  cases o with
  | some a' =>
    have hl := left_ne f.s h0 f.left a ha (ho a' rfl)
    simp only []
    refine post_bind _ _ _ _ (tvSet_post f.s f.left a' h0 hl) (fun s' hs' => ?_)
    kdec hs'.1 d1
  | none =>
  simp only []
  refine post_any _ _ _ (fun isIF => ?_)
  refine post_ite _ _ _ _ (fun _ => ?_) (fun _ => ?_)
  · refine post_bind _ _ _ _ (tvSet_post f.s (f.left + 1) _ h0 (by omega)) (fun s' hs' => ?_)
    exact post_pure _ _ ⟨hs'.1, hp1⟩
  refine post_any _ _ _ (fun av => ?_)
  refine post_ite _ _ _ _ (fun hc => ?_) (fun _ => ?_)
  · have hl := left_ne f.s h0 f.left a ha (by intro h; simp [h] at hc)
    refine post_bind _ _ _ _ (tvSet_post f.s f.left _ h0 hl) (fun s' hs' => ?_)
    exact post_pure _ _ ⟨hs'.1, hp1⟩
  refine post_ite _ _ _ _ (fun hc => ?_) (fun _ => ?_)
  · have hl := left_ne f.s h0 f.left a ha (by intro h; simp [h] at hc)
    refine post_bind _ _ _ _ (tvSet_post f.s f.left _ h0 hl) (fun s' hs' => ?_)
    exact post_pure _ _ ⟨hs'.1, hp1⟩
  refine post_ite _ _ _ _ (fun hc => ?_) (fun _ => ?_)
  · have hl := left_ne f.s h0 f.left a ha (by intro h; simp [h] at hc)
    refine post_ite _ _ _ _ (fun _ => ?_) (fun _ => post_pure _ _ ⟨h0, hp1⟩)
    refine post_bind _ _ _ _ (tvSet_post f.s f.left _ h0 hl) (fun s' hs' => ?_)
    exact post_pure _ _ ⟨hs'.1, hp1⟩
  refine post_ite _ _ _ _ (fun hc => ?_) (fun _ => ?_)
  · have hl := left_ne f.s h0 f.left a ha (by intro h; simp [h] at hc)
    refine post_bind _ _ _ _ (tvSet_post f.s f.left b h0 hl) (fun s' hs' => ?_)
    kdec hs'.1 d1
  refine post_ite _ _ _ _ (fun hc => ?_) (fun _ => ?_)
  · refine post_ite _ _ _ _ (fun _ => ?_) (fun _ => post_pure _ _ ⟨h0, hp1⟩)
    refine post_bind _ _ _ _ (tvSet_post f.s (f.left + 1) _ h0 (by omega)) (fun s' hs' => ?_)
    exact post_pure _ _ ⟨hs'.1, hp1⟩
  refine post_ite _ _ _ _ (fun hc => ?_) (fun _ => ?_)
  · have hl := left_ne f.s h0 f.left a ha (by intro h; simp [h] at hc)
    refine post_any _ _ _ (fun ar => ?_)
    refine post_ite _ _ _ _ (fun _ => ?_) (fun _ => ?_)
    · refine post_bind _ _ _ _ (tvSet_post f.s f.left _ h0 hl) (fun s' hs' => ?_)
      exact post_pure _ _ ⟨hs'.1, hp1⟩
    · refine post_bind _ _ _ _ (tvSet_post f.s f.left b h0 hl) (fun s' hs' => ?_)
      kdec hs'.1 d1
  refine post_ite _ _ _ _ (fun _ => by kdec h0 d1) (fun _ => ?_)
  refine post_ite _ _ _ _ (fun _ => by kdec h0 d1) (fun _ => ?_)
  refine post_ite _ _ _ _ (fun hc => ?_) (fun _ => ?_)
  · have hl := left_ne f.s h0 f.left a ha (by intro h; simp [h] at hc)
    refine post_ite _ _ _ _ (fun _ => ?_) (fun _ => ?_)
    · refine post_bind _ _ _ _ (tvSet_post f.s (f.left + 1) _ h0 (by omega)) (fun s' hs' => ?_)
      exact post_pure _ _ hs'.1
    · have d2 : 1 ≤ f.pos - 2 := by omega
      kdec h0 d2
  refine post_ite _ _ _ _ (fun _ => by kdec h0 d1) (fun _ => ?_)
  exact post_pure _ _ ⟨h0, hp1⟩

theorem foldThree_post (f : FS) (hK : KF f) (h3 : f.left + 3 ≤ f.pos) : PostP KStep (foldThree f) := by
  obtain ⟨h0, hp1⟩ := hK
  unfold foldThree
  refine post_bind _ _ _ _ (tvGet_post f.s f.left) (fun a ha => ?_)
  refine post_any _ _ _ (fun b => ?_)
  refine post_any _ _ _ (fun c => ?_)
  refine post_any _ _ _ (fun bUnary => ?_)
  have d1 : 1 ≤ f.pos - 1 := by omega
  have d2 : 1 ≤ f.pos - 2 := by omega
  have hs1 : ∀ t, PostP (fun s' => Slot0 s' ∧ s'.input = f.s.input ∧ s'.cur = f.s.cur) (tvSet f.s (f.left + 1) t) :=
    fun t => tvSet_post f.s (f.left + 1) t h0 (by omega)
  refine post_ite _ _ _ _ (fun _ => by kdec h0 d2) (fun _ => ?_)
  refine post_ite _ _ _ _ (fun _ => by kdec h0 d2) (fun _ => ?_)
  refine post_ite _ _ _ _ (fun _ => by kdec h0 d2) (fun _ => ?_)
  refine post_ite _ _ _ _ (fun _ => by kdec h0 d2) (fun _ => ?_)
  refine post_ite _ _ _ _ (fun _ => by kdec h0 d2) (fun _ => ?_)
  refine post_any _ _ _ (fun vb => ?_)
  refine post_ite _ _ _ _ (fun _ => by kdec h0 d2) (fun _ => ?_)
  refine post_ite _ _ _ _ (fun _ => by kdec h0 d2) (fun _ => ?_)
  refine post_ite _ _ _ _ (fun _ => ?_) (fun _ => ?_)
  · refine post_bind _ _ _ _ (hs1 c) (fun s' hs' => ?_)
    kdec hs'.1 d1
  refine post_ite _ _ _ _ (fun _ => ?_) (fun _ => ?_)
  · refine post_bind _ _ _ _ (hs1 c) (fun s' hs' => ?_)
    kdec hs'.1 d1
  refine post_ite _ _ _ _ (fun hc => ?_) (fun _ => ?_)
  · -- `, unary x`: three tokens dropped; the window cannot start at the string
    have hl := left_ne f.s h0 f.left a ha (by intro h; simp [h] at hc)
    have d3 : 1 ≤ f.pos - 3 := by omega
    refine post_bind _ _ _ _ (hs1 c) (fun s' hs' => ?_)
    kdec hs'.1 d3
  refine post_ite _ _ _ _ (fun _ => ?_) (fun _ => ?_)
  · refine post_bind _ _ _ _ (hs1 c) (fun s' hs' => ?_)
    kdec hs'.1 d1
  refine post_ite _ _ _ _ (fun _ => by kdec h0 d2) (fun _ => ?_)
  refine post_ite _ _ _ _ (fun _ => ?_) (fun _ => ?_)
  · refine post_bind _ _ _ _ (hs1 c) (fun s' hs' => ?_)
    kdec hs'.1 d1
  refine post_bind (fun f' => KF f') _ _ _ ?_ (fun f' hf' => post_pure _ _ hf')
  refine post_ite _ _ _ _ (fun hc => ?_) (fun _ => post_pure _ _ ⟨h0, hp1⟩)
  refine post_any _ _ _ (fun va => ?_)
  refine post_ite _ _ _ _ (fun _ => ?_) (fun _ => post_pure _ _ ⟨h0, hp1⟩)
  have hl := left_ne f.s h0 f.left a ha (by intro h; simp [h] at hc)
  refine post_bind _ _ _ _ (tvSet_post f.s f.left _ h0 hl) (fun s' hs' => ?_)
  exact post_pure _ _ ⟨hs'.1, hp1⟩

theorem foldSpecial_post (f : FS) (hK : KF f) : PostP KF (foldSpecial f) := by
  obtain ⟨h0, hp1⟩ := hK
  unfold foldSpecial
  refine post_ite _ _ _ _ (fun _ => ?_) (fun _ => post_pure _ _ ⟨h0, hp1⟩)
  refine post_any _ _ _ (fun b => ?_)
  refine post_ite _ _ _ _ (fun _ => ?_) (fun _ => post_pure _ _ ⟨h0, hp1⟩)
  refine post_ite _ _ _ _ (fun _ => ?_) (fun _ => post_pure _ _ ⟨h0, by show 1 ≤ 1; omega⟩)
  refine post_any _ _ _ (fun t5 => ?_)
  refine post_bind _ _ _ _ (tvSet_post f.s 1 t5 h0 (by omega)) (fun s' hs' => ?_)
  exact post_pure _ _ ⟨hs'.1, by show 1 ≤ 2; omega⟩

theorem tokLoop_slot0 : ∀ (fuel : Nat) (s : State), s.cur ≠ 0 → Slot0 s →
    PostP (fun p => Slot0 p.2 ∧ p.2.cur = s.cur) (tokLoop s fuel)
  | 0, _, _, _ => fun _ h => by cases h
  | fuel + 1, s, hc, h0 => by
    unfold tokLoop
    refine post_ite _ _ _ _ (fun _ => ?_) (fun _ => post_pure _ _ ⟨h0, rfl⟩)
    refine post_any _ _ _ (fun rest => ?_)
    refine post_any _ _ _ (fun c0 => ?_)
    refine post_any _ _ _ (fun r => ?_)
    refine post_bind _ _ _ _ (tvSet_post s s.cur _ h0 hc) (fun s1 hs1 => ?_)
    refine post_ite _ _ _ _ (fun _ => post_pure _ _ ⟨hs1.1, hs1.2.2⟩) (fun _ => ?_)
    intro p hp
    have := tokLoop_slot0 fuel { s1 with pos := s1.pos + r.next, ddx := s1.ddx + r.ddx, hash := s1.hash + r.hash }
      (by show s1.cur ≠ 0; rw [hs1.2.2]; exact hc) hs1.1 p hp
    exact ⟨this.1, by rw [this.2]; exact hs1.2.2⟩

theorem tokenize_slot0 (s : State) (hc : s.cur ≠ 0) (h0 : Slot0 s) : PostP (fun p => Slot0 p.2) (tokenize s) := by
  unfold tokenize
  refine post_ite _ _ _ _ (fun _ => post_pure _ _ h0) (fun _ => ?_)
  refine post_bind _ _ _ _ (tvSet_post s s.cur {} h0 hc) (fun s1 hs1 => ?_)
  refine post_ite _ _ _ _ (fun _ => ?_) (fun _ => ?_)
  · refine post_any _ _ _ (fun r => ?_)
    refine post_bind _ _ _ _ (tvSet_post s1 s1.cur r.tok hs1.1 (by rw [hs1.2.2]; exact hc)) (fun s2 hs2 => ?_)
    exact post_pure _ _ hs2.1
  · intro p hp
    exact (tokLoop_slot0 _ s1 (by rw [hs1.2.2]; exact hc) hs1.1 p hp).1

theorem fetch_post (k : Nat) : ∀ (fuel : Nat) (f : FS), KF f → PostP (fun f' => KF f' ∧ f'.left = f.left) (fetch f k fuel)
  | 0, _, _ => fun _ h => by cases h
  | fuel + 1, f, hK => by
    obtain ⟨h0, hp1⟩ := hK
    unfold fetch
    refine post_ite _ _ _ _ (fun _ => ?_) (fun _ => post_pure _ _ ⟨⟨h0, hp1⟩, rfl⟩)
    refine post_bind _ _ _ _ (tokenize_slot0 { f.s with cur := f.pos } (by show f.pos ≠ 0; omega) h0) (fun p hp => ?_)
    obtain ⟨more, s1⟩ := p
    simp only [] at hp ⊢
    refine post_ite _ _ _ _ (fun _ => ?_) (fun _ => ?_)
    · refine post_any _ _ _ (fun cur => ?_)
      refine post_ite _ _ _ _ (fun _ => ?_) (fun _ => ?_)
      · exact fetch_post k fuel _ ⟨hp, hp1⟩
      · intro r hr
        have := fetch_post k fuel _ (show KF { f with s := s1, more := more, lastComment := { f.lastComment with cat := 0 }, pos := f.pos + 1 } from ⟨hp, by show 1 ≤ f.pos + 1; omega⟩) r hr
        exact this
    · exact fetch_post k fuel _ ⟨hp, hp1⟩

theorem foldBody_post (f : FS) (hK : KF f) : PostP KStep (foldBody f) := by
  unfold foldBody
  refine post_bind _ _ _ _ (foldSpecial_post f hK) (fun f1 hf1 => ?_)
  refine post_ite _ _ _ _ (fun _ => post_pure _ _ ⟨⟨hf1.1, hf1.2⟩, hf1.2⟩) (fun _ => ?_)
  refine post_bind _ _ _ _ (fetch_post 2 _ f1 hf1) (fun f2 hf2 => ?_)
  refine post_ite _ _ _ _ (fun _ => post_pure _ _ ⟨hf2.1.1, hf2.1.2⟩) (fun hc2 => ?_)
  refine post_bind _ _ _ _ (foldTwo_post f2 hf2.1 (by omega)) (fun r hr => ?_)
  cases r with
  | done st => exact post_pure _ _ hr
  | next f3 =>
    simp only []
    refine post_bind _ _ _ _ (fetch_post 3 _ f3 hr) (fun f4 hf4 => ?_)
    refine post_ite _ _ _ _ (fun _ => post_pure _ _ ⟨hf4.1.1, hf4.1.2⟩) (fun hc3 => ?_)
    exact foldThree_post f4 hf4.1 (by omega)

theorem foldLoop_post : ∀ (fuel : Nat) (f : FS), KF f → PostP (fun p => Slot0 p.2.s) (foldLoop f fuel)
  | 0, _, _ => fun _ h => by cases h
  | fuel + 1, f, hK => by
    unfold foldLoop
    refine post_bind _ _ _ _ (foldBody_post f hK) (fun st hst => ?_)
    cases st with
    | cont f' => exact foldLoop_post fuel f' hst
    | brk f' =>
      simp only []
      obtain ⟨⟨h0, hp1⟩, hl1⟩ := hst
      refine post_bind (fun f'' => Slot0 f''.s) _ _ _ ?_ (fun f'' hf'' => post_pure _ _ hf'')
      refine post_ite _ _ _ _ (fun _ => ?_) (fun _ => post_pure _ _ h0)
      refine post_bind _ _ _ _ (tvSet_post f'.s f'.left _ h0 (by omega)) (fun s' hs' => ?_)
      exact post_pure _ _ hs'.1
    | ret n f' => exact post_pure _ _ hst

theorem fold_inq_slot0 (x : Bytes) (hx : x ≠ []) (q : UInt8) (F2 : Nat) (hq : q = 39 ∨ q = 34)
    (hF2 : (hasFlag F2 flagQuoteSingle || hasFlag F2 flagQuoteDouble) = true) (hF20 : F2 ≠ 0) (hd : flag2Delim F2 = q) :
    PostP (fun p => Slot0 p.2) (fold (sqliInit x F2)) := by
  have t2 := tokenize_first_inq x hx q F2 hq hF2 hF20 hd
  generalize hA : ({ (sqliInit x F2) with tv := (((sqliInit x F2).tv.set 0 {}).set 0 ((strTok x q 0 0).1)), pos := (strTok x q 0 0).2, toks := 0 + 1 } : State) = A at t2
  have hget : tvGet A A.cur = .ok (strTok x q 0 0).1 := by rw [← hA]; rfl
  have hslot : Slot0 A := ⟨(strTok x q 0 0).1, by rw [← hA]; rfl, strTok_cat x q 0 0⟩
  have sk2 : skipLoop (sqliInit x F2) ((sqliInit x F2).input.length + 1 + 1) = .ok (true, A) :=
    skipLoop_first _ A _ _ t2 hget (strTok_cat x q 0 0)
  unfold fold
  show PostP _ (skipLoop (sqliInit x F2) ((sqliInit x F2).input.length + 1 + 1) >>= _)
  rw [sk2]
  simp only [ok_bind, Bool.not_true, Bool.false_eq_true, ↓reduceIte]
  refine post_bind _ _ _ _ (foldLoop_post _ { s := A, pos := 1, left := 0, more := true, lastComment := {} } ⟨hslot, Nat.le_refl _⟩)
    (fun p hp => ?_)
  exact post_pure _ _ hp

theorem recatLast_slot0 (s : State) (n : Nat) (h0 : Slot0 s) : PostP Slot0 (recatLast s n) := by
  unfold recatLast
  refine post_ite _ _ _ _ (fun hn => ?_) (fun _ => post_pure _ _ h0)
  refine post_any _ _ _ (fun t => ?_)
  refine post_ite _ _ _ _ (fun _ => ?_) (fun _ => post_pure _ _ h0)
  intro s' hs'
  exact (tvSet_post s (n - 1) _ h0 (by omega) s' hs').1

/-- **the fingerprint of a quote reading is `X` or keeps its string token in slot 0** -/
theorem fingerprint_inq_slot0 (x : Bytes) (hx : x ≠ []) (q : UInt8) (F2 : Nat) (hq : q = 39 ∨ q = 34)
    (hF2 : (hasFlag F2 flagQuoteSingle || hasFlag F2 flagQuoteDouble) = true) (hF20 : F2 ≠ 0) (hd : flag2Delim F2 = q) :
    PostP (fun st => st.fingerprint = [88] ∨ Slot0 st) (fingerprint x F2) := by
  unfold fingerprint
  dsimp only []
  refine post_bind _ _ _ _ (fold_inq_slot0 x hx q F2 hq hF2 hF20 hd) (fun p hp => ?_)
  obtain ⟨n, s1⟩ := p
  simp only [] at hp ⊢
  refine post_bind _ _ _ _ (recatLast_slot0 s1 n hp) (fun s2 hs2 => ?_)
  refine post_any _ _ _ (fun o => ?_)
  cases o with
  | some fp => exact post_pure _ _ (Or.inr hs2)
  | none =>
    simp only []
    refine post_any _ _ _ (fun t0 => ?_)
    refine post_any _ _ _ (fun s3 => ?_)
    exact post_pure _ _ (Or.inl rfl)

theorem fingerprint_inq_not1c (x : Bytes) (hx : x ≠ []) (q : UInt8) (F2 : Nat) (hq : q = 39 ∨ q = 34)
    (hF2 : (hasFlag F2 flagQuoteSingle || hasFlag F2 flagQuoteDouble) = true) (hF20 : F2 ≠ 0) (hd : flag2Delim F2 = q)
    (st : State) (h : fingerprint x F2 = .ok st) : st.fingerprint ≠ [49, 99] := by
  obtain ⟨st', h', _, hfp⟩ := fingerprint_ok x F2
  rw [h] at h'
  cases h'
  intro hc
  rcases fingerprint_inq_slot0 x hx q F2 hq hF2 hF20 hd st h with hX | ⟨t0, ht0, h115⟩
  · rw [hX] at hc; cases hc
  · rcases hfp with hX | ⟨hw, n, _, hf, _⟩
    · rw [hX] at hc; cases hc
    · have h8 := hw.1
      have hn : n = 2 := by
        have := congrArg List.length hf
        rw [hc] at this
        simp only [List.length_map, List.length_take, List.length_cons, List.length_nil] at this
        omega
      rw [hf, hn] at hc
      have h0 := congrArg (fun l => l[0]?) hc
      simp only [List.getElem?_map, List.getElem?_take, Nat.zero_lt_succ, ↓reduceIte, ht0, Option.map_some,
        List.getElem?_cons_zero, Option.some.injEq] at h0
      rw [h115] at h0
      exact absurd h0 (by decide)

end LibInj.Sqli
