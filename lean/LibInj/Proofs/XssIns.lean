import LibInj.Proofs.H5Ins
import LibInj.Proofs.XssShift
import LibInj.Proofs.NulClass
set_option linter.unusedSimpArgs false
set_option linter.unusedVariables false
/-! C11, NUL clause at full strength: in any one context, inserting a NUL strictly inside a tag-name or
attribute-name token never changes that context's verdict.

The run on `a ++ b` and the run on `a ++ 0 :: b` are followed in lock step: every step that ends before the
insertion point is the same step (`next_loc`), so the tokens judged so far and the pending attribute type
are the same; the step that emits the name token containing the insertion point emits it one byte longer —
the classifiers ignore NULs — and from then on both machines read the same suffix (shift naturality, C13). -/
namespace LibInj.Xss
open LibInj LibInj.H5

/-- the run from `h` reaches, through steps that end before offset `m`, a step that emits a name token
strictly containing `m` (`n` bounds the number of steps) -/
def Reaches (m : Nat) : Nat → H → Prop
  | 0, _ => False
  | n + 1, h => ∃ h1, next h = .ok (true, h1) ∧ (Straddle m h1 ∨ (Before m h1 ∧ Reaches m n h1))

theorem slice_ins (a b : Bytes) (x y : Nat) (hy : y ≤ a.length) : slice (a ++ 0 :: b) x y = slice (a ++ b) x y := by
  unfold slice
  have hl : (a ++ b).length = a.length + b.length := by simp
  rw [len_ins]
  by_cases hxy : x ≤ y
  · have c1 : x ≤ y ∧ y ≤ (a ++ b).length + 1 := ⟨hxy, by omega⟩
    have c2 : x ≤ y ∧ y ≤ (a ++ b).length := ⟨hxy, by omega⟩
    simp only [c1, c2, and_self, ↓reduceIte]
    rw [take_ins a b x (y - x) (by omega)]
  · have c1 : ¬ (x ≤ y ∧ y ≤ (a ++ b).length + 1) := fun h => hxy h.1
    have c2 : ¬ (x ≤ y ∧ y ≤ (a ++ b).length) := fun h => hxy h.1
    simp only [c1, c2, ↓reduceIte]

theorem slice_drop_ins (a b : Bytes) (q x y : Nat) (hy : q + y ≤ a.length) :
    slice ((a ++ 0 :: b).drop q) x y = slice ((a ++ b).drop q) x y := by
  rw [drop_le a (0 :: b) q (by omega), drop_le a b q (by omega)]
  have := slice_ins (a.drop q) b x y (by simp; omega)
  exact this

theorem at_drop_ins (a b : Bytes) (q k : Nat) (hk : q + k < a.length) :
    at' ((a ++ 0 :: b).drop q) k = at' ((a ++ b).drop q) k := by
  unfold at'
  rw [List.getElem?_drop, List.getElem?_drop, get_lt a b _ hk]

/-- the comment tests read the token only -/
theorem commentIsXSS_re (a b : Bytes) (h : H) (hs : h.s = a ++ b) (hend : h.tokStart + h.tokLen ≤ a.length) :
    commentIsXSS (re a b h) = commentIsXSS h := by
  have hl : (a ++ b).length = a.length + b.length := by simp
  have hle : h.tokStart ≤ (a ++ b).length := by omega
  unfold commentIsXSS
  simp only [re, hs, slice_ins a b _ _ hend, offFrom_re a b _ hle, offFrom_ok hle, bind, Except.bind, pure, Except.pure]
  cases slice (a ++ b) h.tokStart (h.tokStart + h.tokLen) with
  | error e => rfl
  | ok t =>
    simp only []
    split
    · rfl
    · by_cases h3 : h.tokLen > 3
      · simp only [h3, ↓reduceIte, at_drop_ins a b h.tokStart 0 (by omega), slice_drop_ins a b h.tokStart 1 3 (by omega),
          slice_drop_ins a b h.tokStart 0 3 (by omega)]
        by_cases h5 : h.tokLen > 5
        · simp only [h5, ↓reduceIte, slice_drop_ins a b h.tokStart 0 6 (by omega)]
        · simp only [h5, ↓reduceIte]
      · have h5 : ¬ h.tokLen > 5 := by omega
        simp only [h3, h5, ↓reduceIte]

/-- a token that ends before the insertion point is the same bytes on both inputs -/
theorem before_tok (m : Nat) (h h1 : H) (hi : Inv h) (h2 : h.state = .tagOpen → 1 ≤ h.pos) (hn : next h = .ok (true, h1))
    (hb : Before m h1) : h1.tokStart + h1.tokLen ≤ m := by
  obtain ⟨_, o2, _⟩ := next_ord h hi h2 h1 hn
  unfold lbN at o2
  rw [if_neg hb.2] at o2
  unfold Before at hb
  omega

theorem drop_ge (a b : Bytes) (c : Nat) (h : a.length ≤ c) : (a ++ 0 :: b).drop (c + 1) = (a ++ b).drop c := by
  rw [List.drop_append, List.drop_append, List.drop_eq_nil_of_le (by omega), List.drop_eq_nil_of_le h]
  rw [show c + 1 - a.length = (c - a.length) + 1 by omega]
  rfl

/-- after the name token both machines read the same suffix -/
theorem after_name (a b : Bytes) (h1 : H) (hs : h1.s = a ++ b) (hi : Inv h1) (hok : ShOK h1) (hm : h1.state = .eof ∨ a.length < h1.pos)
    (attr fuel fuel' : Nat) (hf : mu h1 < fuel) (hf' : mu h1 < fuel') :
    xssLoop (insN a b h1) attr fuel' = xssLoop h1 attr fuel := by
  have hl : (a ++ b).length = a.length + b.length := by simp
  cases fuel with
  | zero => omega
  | succ fuel =>
  cases fuel' with
  | zero => omega
  | succ fuel' =>
  by_cases he : h1.state = .eof
  · rw [xssLoop_eof h1 he, xssLoop_eof (insN a b h1) (by simpa [insN] using he)]
  · have hpm : a.length < h1.pos := by rcases hm with h | h; exact absurd h he; exact h
    have hpl : h1.pos ≤ (a ++ b).length := by rw [← hs]; exact hi.1
    obtain ⟨_, i1, i2, i3⟩ := hi
    obtain ⟨o1, o2, o3, o4, o5, o6⟩ := hok
    -- the common suffix, from one byte before the scan offset
    have hgl : ((a ++ b).drop (h1.pos - 1)).length = (a ++ b).length - (h1.pos - 1) := by simp
    have hg_inv : Inv { h1 with s := (a ++ b).drop (h1.pos - 1), pos := 1 } := by
      refine ⟨?_, ?_, ?_, ?_⟩
      · simp only [hgl]; omega
      · intro _; exact Nat.le_refl _
      · intro hst; simp only [hgl]; have := i2 hst; rw [hs] at this; omega
      · intro hst; simp only at hst; rcases hst with h | h | h
        · exact absurd h o4
        · exact absurd h o5
        · exact absurd h o6
    have hg_ok : ShOK { h1 with s := (a ++ b).drop (h1.pos - 1), pos := 1 } :=
      ⟨fun _ => Nat.le_refl _, fun _ => Nat.le_refl _, fun _ => Nat.le_refl _, o4, o5, o6⟩
    have hg_mu : mu { h1 with s := (a ++ b).drop (h1.pos - 1), pos := 1 } = mu h1 := by
      unfold mu; simp only [hgl, hs]; omega
    have e1 : h1 = shiftG ((a ++ b).take (h1.pos - 1)) h1.tokStart h1.tokLen h1.tokType
        { h1 with s := (a ++ b).drop (h1.pos - 1), pos := 1 } := by
      refine H_eq _ _ ?_ ?_ rfl rfl rfl rfl rfl
      · simp only [shiftG_s, List.take_append_drop]; exact hs
      · simp only [shiftG_pos, List.length_take]; omega
    have e2 : insN a b h1 = shiftG ((a ++ 0 :: b).take (h1.pos - 1 + 1)) h1.tokStart (h1.tokLen + 1) h1.tokType
        { h1 with s := (a ++ b).drop (h1.pos - 1), pos := 1 } := by
      refine H_eq _ _ ?_ ?_ rfl rfl rfl rfl rfl
      · simp only [shiftG_s, insN]
        rw [← drop_ge a b (h1.pos - 1) (by omega), List.take_append_drop]
      · simp only [shiftG_pos, insN, List.length_take, len_ins]; omega
    rw [e2]
    conv => rhs; rw [e1]
    rw [xssLoop_sh _ (fuel + 1) (fuel' + 1) _ _ _ _ attr hg_inv hg_ok (by rw [hg_mu]; exact hf) (by rw [hg_mu]; exact hf')]
    rw [xssLoop_sh _ (fuel + 1) (fuel + 1) _ _ _ _ attr hg_inv hg_ok (by rw [hg_mu]; exact hf) (by rw [hg_mu]; exact hf)]

@[simp] theorem re_tokType (a b : Bytes) (h : H) : (re a b h).tokType = h.tokType := rfl
@[simp] theorem re_tokStart (a b : Bytes) (h : H) : (re a b h).tokStart = h.tokStart := rfl
@[simp] theorem re_tokLen (a b : Bytes) (h : H) : (re a b h).tokLen = h.tokLen := rfl
@[simp] theorem insN_tokType (a b : Bytes) (h : H) : (insN a b h).tokType = h.tokType := rfl
@[simp] theorem insN_tokStart (a b : Bytes) (h : H) : (insN a b h).tokStart = h.tokStart := rfl
@[simp] theorem insN_tokLen (a b : Bytes) (h : H) : (insN a b h).tokLen = h.tokLen + 1 := rfl
@[simp] theorem insN_s (a b : Bytes) (h : H) : (insN a b h).s = a ++ 0 :: b := rfl

/-- the name token that contains the insertion point, on both inputs -/
theorem straddle_slices (a b : Bytes) (ts tl : Nat) (h1 : ts < a.length) (h2 : a.length < ts + tl) (h3 : ts + tl ≤ (a ++ b).length) :
    slice (a ++ b) ts (ts + tl) = .ok (a.drop ts ++ b.take (ts + tl - a.length)) ∧
    slice (a ++ 0 :: b) ts (ts + (tl + 1)) = .ok (a.drop ts ++ 0 :: b.take (ts + tl - a.length)) := by
  have hl : (a ++ b).length = a.length + b.length := by simp
  unfold slice
  rw [len_ins]
  have c1 : ts ≤ ts + tl ∧ ts + tl ≤ (a ++ b).length := ⟨by omega, h3⟩
  have c2 : ts ≤ ts + (tl + 1) ∧ ts + (tl + 1) ≤ (a ++ b).length + 1 := ⟨by omega, by omega⟩
  simp only [c1, c2, and_self, ↓reduceIte]
  rw [drop_le a b ts (by omega), drop_le a (0 :: b) ts (by omega)]
  have hdl : (a.drop ts).length = a.length - ts := by simp
  constructor
  · rw [List.take_append, List.take_of_length_le (by omega)]
    rw [hdl, show ts + tl - ts - (a.length - ts) = ts + tl - a.length by omega]
  · rw [List.take_append, List.take_of_length_le (by omega)]
    rw [hdl, show ts + (tl + 1) - ts - (a.length - ts) = (ts + tl - a.length) + 1 by omega]
    rfl

/-- **lock-step run**: the verdict of the loop from `h` is the same with the NUL inserted -/
theorem xssLoop_ins (a b : Bytes) : ∀ (n : Nat) (h : H) (attr fuel fuel' : Nat), h.s = a ++ b → Inv h → (h.state = .tagOpen → 1 ≤ h.pos) →
    Reaches a.length n h → mu h < fuel → mu h < fuel' → xssLoop (re a b h) attr fuel' = xssLoop h attr fuel
  | 0, _, _, _, _, _, _, _, hr, _, _ => by cases hr
  | n + 1, h, attr, fuel, fuel', hs, hi, h2, hr, hf, hf' => by
    obtain ⟨h1, hn, hcase⟩ := hr
    have loc := next_loc a b h hs hi h2 h1 hn
    obtain ⟨bb, h1', hn0, hs1, hrest⟩ := next_spec h hi
    rw [hn] at hn0
    simp only [Except.ok.injEq, Prod.mk.injEq] at hn0
    obtain ⟨rfl, rfl⟩ := hn0
    obtain ⟨hmu, hinv1, htok, _⟩ := hrest rfl
    have hok1 := next_shok h hi h1 hn
    have hs1' : h1.s = a ++ b := by rw [hs1, hs]
    cases fuel with
    | zero => omega
    | succ fuel =>
    cases fuel' with
    | zero => omega
    | succ fuel' =>
    rcases hcase with hst | ⟨hb, hr1⟩
    · -- the name token that contains the insertion point
      have hn' := loc.2 hst
      obtain ⟨hname, hts, htl⟩ := hst
      rw [hs] at htok
      obtain ⟨sl1, sl2⟩ := straddle_slices a b h1.tokStart h1.tokLen hts htl htok
      have hm : h1.state = .eof ∨ a.length < h1.pos := by
        by_cases he : h1.state = .eof
        · exact Or.inl he
        · right
          obtain ⟨_, o2, _⟩ := next_ord h hi h2 h1 hn
          unfold lbN at o2; rw [if_neg he] at o2; omega
      have hafter : ∀ attr', xssLoop (insN a b h1) attr' fuel' = xssLoop h1 attr' fuel := fun attr' =>
        after_name a b h1 hs1' hinv1 hok1 hm attr' fuel fuel' (by omega) (by omega)
      unfold xssLoop
      simp only [hn, hn', bind, Except.bind, pure, Except.pure, Bool.not_true, Bool.false_eq_true, ↓reduceIte,
        insN_tokType, insN_tokStart, insN_tokLen, insN_s, hs1', sl1, sl2]
      rcases hname with ht | ht | ht
      · simp only [ht, isBlackTag_nul, hafter]
      · simp only [ht, hafter]
      · simp only [ht, isBlackAttr_nul, hafter]
    · -- a step that ends before the insertion point
      have hn' := loc.1 hb
      have hend := before_tok a.length h h1 hi h2 hn hb
      have ih : ∀ attr', xssLoop (re a b h1) attr' fuel' = xssLoop h1 attr' fuel := fun attr' =>
        xssLoop_ins a b n h1 attr' fuel fuel' hs1' hinv1 hok1.2.1 hr1 (by omega) (by omega)
      unfold xssLoop
      simp only [hn, hn', bind, Except.bind, pure, Except.pure, Bool.not_true, Bool.false_eq_true, ↓reduceIte,
        re_tokType, re_tokStart, re_tokLen, re_s, slice_ins a b _ _ hend, commentIsXSS_re a b h1 hs1' hend, ih, ← hs1']
      rfl

/-- **C11, NUL clause.** If, in context `ctx`, the tokenizer reaches — through tokens that end before it — a
tag-name or attribute-name token that strictly contains offset `|a|`, the verdict of that context is the same
for `a ++ b` and for `a ++ 0 :: b`. -/
theorem isXSSCtx_nul (a b : Bytes) (ctx n : Nat) (hr : Reaches a.length n (init (a ++ b) ctx)) :
    isXSSCtx (a ++ 0 :: b) ctx = isXSSCtx (a ++ b) ctx := by
  unfold isXSSCtx
  have hre : init (a ++ 0 :: b) ctx = re a b (init (a ++ b) ctx) := rfl
  rw [hre]
  have h2 : (init (a ++ b) ctx).state = .tagOpen → 1 ≤ (init (a ++ b) ctx).pos := by
    unfold init; simp only []; split <;> simp
  have hmu : mu (init (a ++ b) ctx) ≤ 3 * (a ++ b).length + 3 := by
    unfold mu
    have := rank_le (init (a ++ b) ctx).state
    have hp : (init (a ++ b) ctx).pos = 0 := rfl
    have hs : (init (a ++ b) ctx).s = a ++ b := rfl
    rw [hp, hs]; omega
  exact xssLoop_ins a b n _ 0 _ _ rfl (init_inv _ _) h2 hr
    (by unfold xssFuel; omega) (by unfold xssFuel; rw [len_ins]; omega)

/-! ### from the token list to the lock-step condition -/

/-- a name token never starts before the scan offset of the step that emits it (the two states that re-emit
the byte before the scan offset emit `<` as text, or `/>`) -/
theorem tagOpen_name (d : Nat) (h x : H) (hp : h.pos ≤ h.s.length) (h1 : 1 ≤ h.pos)
    (hx : stateTagOpen d h = .ok (true, x)) (hn : IsName x.tokType) : h.pos ≤ x.tokStart := by
  cases d with
  | zero => cases hx
  | succ d =>
    unfold stateTagOpen at hx
    by_cases hg : h.pos ≥ h.s.length
    · simp only [hg, ↓reduceIte, pure, Except.pure, Except.ok.injEq, Prod.mk.injEq] at hx
      exact absurd hx.1 (by decide)
    · have hlt : h.pos < h.s.length := by omega
      have h0 : (h.pos == 0) = false := by simp; omega
      simp only [hg, ↓reduceIte, at'_ok hlt, bind, Except.bind, pure, Except.pure] at hx
      split at hx
      · have := (stateMarkupDeclarationOpen_ord { h with pos := h.pos + 1 } (by simp; omega) x hx).1; simp at this; omega
      · split at hx
        · have := ((data_trio_ord d).1 { h with pos := h.pos + 1, isClose := true } (by simp; omega) x hx).1; simp at this; omega
        · split at hx
          · have := (stateBogusComment_ord { h with pos := h.pos + 1 } (by simp; omega) x hx).1; simp at this; omega
          · split at hx
            · have := (stateBogusComment2_ord { h with pos := h.pos + 1 } (by simp; omega) x hx).1; simp at this; omega
            · split at hx
              · exact (stateTagName_ord h hlt x hx).1
              · split at hx
                · exact (stateTagName_ord h hlt x hx).1
                · simp only [h0, Bool.false_eq_true, ↓reduceIte, Except.ok.injEq, Prod.mk.injEq, true_and] at hx
                  subst hx
                  exact absurd hn not_name_text

theorem selfClosing_name (d : Nat) (h x : H) (hp : h.pos ≤ h.s.length) (h1 : 1 ≤ h.pos)
    (hx : stateSelfClosingStartTag d h = .ok (true, x)) (hn : IsName x.tokType) : h.pos ≤ x.tokStart := by
  cases d with
  | zero => cases hx
  | succ d =>
    unfold stateSelfClosingStartTag at hx
    by_cases hg : h.pos ≥ h.s.length
    · simp only [hg, ↓reduceIte, pure, Except.pure, Except.ok.injEq, Prod.mk.injEq] at hx
      exact absurd hx.1 (by decide)
    · have hlt : h.pos < h.s.length := by omega
      simp only [hg, ↓reduceIte, at'_ok hlt, bind, Except.bind, pure, Except.pure] at hx
      split at hx
      · have h0 : ¬ (h.pos = 0) := by omega
        simp only [h0, ↓reduceIte, Except.ok.injEq, Prod.mk.injEq, true_and] at hx
        subst hx
        exact absurd hn not_name_self
      · exact ((sc_ban_ord d).2 h hp x hx).1

theorem next_name_start (h x : H) (hi : Inv h) (h2 : h.state = .tagOpen → 1 ≤ h.pos) (hx : next h = .ok (true, x))
    (hn : IsName x.tokType) : h.pos ≤ x.tokStart := by
  have o1 := (next_ord h hi h2 x hx).1
  by_cases hd : delta h.state = 0
  · have hne : h.state ≠ .eof := by
      intro he; unfold next at hx; rw [he] at hx
      simp only [pure, Except.pure, Except.ok.injEq, Prod.mk.injEq] at hx
      exact absurd hx.1 (by decide)
    unfold lbN at o1; rw [if_neg hne, hd] at o1; omega
  · unfold next at hx
    cases hs : h.state with
    | tagOpen => rw [hs] at hx; exact tagOpen_name _ h x hi.1 (h2 hs) hx hn
    | selfClosing => rw [hs] at hx; exact selfClosing_name _ h x hi.1 (hi.2.1 hs) hx hn
    | _ => rw [hs] at hd; exact absurd rfl hd

def IsNameTok (t : Tok) : Prop := IsName t.ty

/-- name tokens of the rest of the run start at or after the current scan offset -/
theorem tokensLoop_names : ∀ (fuel : Nat) (h : H) (ts : List Tok), Inv h → (h.state = .tagOpen → 1 ≤ h.pos) →
    tokensLoop h fuel = .ok ts → ∀ t ∈ ts, IsNameTok t → h.pos ≤ t.off
  | 0, _, _, _, _, hr => by cases hr
  | fuel + 1, h, ts, hi, h2, hr => by
    unfold tokensLoop at hr
    obtain ⟨b, h', hn, hs, hrest⟩ := next_spec h hi
    rw [hn] at hr
    simp only [bind, Except.bind, pure, Except.pure] at hr
    cases b with
    | false =>
      simp only [Bool.false_eq_true, ↓reduceIte, Except.ok.injEq] at hr
      subst hr
      intro t ht; cases ht
    | true =>
      simp only [↓reduceIte] at hr
      obtain ⟨_, hinv', _, hmono⟩ := hrest rfl
      have hok' := next_shok h hi h' hn
      cases hrec : tokensLoop h' fuel with
      | error e => rw [hrec] at hr; cases hr
      | ok rest =>
        rw [hrec] at hr
        simp only [Except.ok.injEq] at hr
        subst hr
        intro t ht hname
        rcases List.mem_cons.mp ht with rfl | ht
        · exact next_name_start h h' hi h2 hn hname
        · have := tokensLoop_names fuel h' rest hinv' hok'.2.1 hrec t ht hname
          omega

/-- a name token of the run that strictly contains `m` makes the lock-step condition true -/
theorem reaches_of_tokens (m : Nat) : ∀ (fuel : Nat) (h : H) (ts : List Tok), Inv h → (h.state = .tagOpen → 1 ≤ h.pos) →
    tokensLoop h fuel = .ok ts → (∃ t ∈ ts, IsNameTok t ∧ t.off < m ∧ m < t.off + t.len) → Reaches m fuel h
  | 0, _, _, _, _, hr, _ => by cases hr
  | fuel + 1, h, ts, hi, h2, hr, hex => by
    unfold tokensLoop at hr
    obtain ⟨b, h', hn, hs, hrest⟩ := next_spec h hi
    rw [hn] at hr
    simp only [bind, Except.bind, pure, Except.pure] at hr
    cases b with
    | false =>
      simp only [Bool.false_eq_true, ↓reduceIte, Except.ok.injEq] at hr
      subst hr
      obtain ⟨t, ht, _⟩ := hex; cases ht
    | true =>
      simp only [↓reduceIte] at hr
      obtain ⟨_, hinv', _, hmono⟩ := hrest rfl
      have hok' := next_shok h hi h' hn
      cases hrec : tokensLoop h' fuel with
      | error e => rw [hrec] at hr; cases hr
      | ok rest =>
        rw [hrec] at hr
        simp only [Except.ok.injEq] at hr
        subst hr
        obtain ⟨t, ht, hname, hlo, hhi⟩ := hex
        refine ⟨h', hn, ?_⟩
        rcases List.mem_cons.mp ht with rfl | ht
        · exact Or.inl ⟨hname, hlo, hhi⟩
        · right
          have hpos := tokensLoop_names fuel h' rest hinv' hok'.2.1 hrec t ht hname
          have hne : h'.state ≠ .eof := by
            intro he
            cases fuel with
            | zero => cases hrec
            | succ fuel =>
              unfold tokensLoop next at hrec
              rw [he] at hrec
              simp only [bind, Except.bind, pure, Except.pure, Bool.false_eq_true, ↓reduceIte, Except.ok.injEq] at hrec
              subst hrec
              cases ht
          exact ⟨⟨by omega, hne⟩, reaches_of_tokens m fuel h' rest hinv' hok'.2.1 hrec ⟨t, ht, hname, hlo, hhi⟩⟩

/-- **C11, NUL clause, as the property words it.** For every input, every context and every offset strictly
inside a tag-name or attribute-name token of that input in that context, inserting a NUL at that offset does
not change the context's verdict. -/
theorem nul_in_name_token (s : Bytes) (ctx : Nat) (ts : List Tok) (hts : tokens s ctx = .ok ts) (t : Tok) (ht : t ∈ ts)
    (hname : t.ty = .tagNameOpen ∨ t.ty = .tagClose ∨ t.ty = .attrName) (m : Nat) (hlo : t.off < m) (hhi : m < t.off + t.len) :
    isXSSCtx (s.take m ++ 0 :: s.drop m) ctx = isXSSCtx s ctx := by
  obtain ⟨ts', hts', hin, _⟩ := tokens_total s ctx
  rw [hts] at hts'
  simp only [Except.ok.injEq] at hts'
  subst hts'
  have hlen : m ≤ s.length := by have := hin t ht; omega
  have hal : (s.take m).length = m := by simp; omega
  have hst : (init s ctx).state ≠ .tagOpen := by unfold init; simp only []; split <;> simp
  unfold tokens at hts
  have hr := reaches_of_tokens m _ (init s ctx) ts (init_inv s ctx) (fun h => absurd h hst) hts ⟨t, ht, hname, hlo, hhi⟩
  have := isXSSCtx_nul (s.take m) (s.drop m) ctx _ (by rw [hal, List.take_append_drop]; exact hr)
  rw [List.take_append_drop] at this
  exact this

end LibInj.Xss
