import LibInj.Proofs.TokenizeOK
set_option linter.unusedSimpArgs false
set_option linter.unusedVariables false
/-! Safety of `fold`: no index, slice, token-vector or negative-length error (C01). -/
namespace LibInj.Sqli
open LibInj

/-- what `fold`'s accesses need from a token in the window -/
def TokF (t : Token) : Prop := TokInv t ∧ CatOK t

theorem tokF_default : TokF ({} : Token) :=
  ⟨⟨rfl, by simp⟩, ⟨Or.inl rfl, (fun h => absurd h (by decide)), (fun h => absurd h (by decide))⟩⟩

/-- re-categorising a token keeps it usable as long as the new class fits its length -/
theorem TokF.recat {t : Token} (h : TokF t) (c : UInt8) (hc : CatV c t.len) : TokF { t with cat := c } :=
  ⟨h.1, hc⟩

theorem isUnaryOp_ok (t : Token) (h : TokF t) : ∃ b, t.isUnaryOp = .ok b := by
  obtain ⟨⟨hv, hl⟩, _⟩ := h
  unfold Token.isUnaryOp
  by_cases hc : (t.cat != 111) = true
  · simp [hc, pure, Except.pure]
  · simp only [hc, Bool.false_eq_true, ↓reduceIte, bind, Except.bind, pure, Except.pure]
    split
    · rename_i h1
      simp only [at'_ok (show 0 < t.val.length by omega)]
      exact ⟨_, rfl⟩
    · rename_i h2
      simp only [andM, toBool, byteIs, at'_ok (show 0 < t.val.length by omega), at'_ok (show 1 < t.val.length by omega),
        bind, Except.bind, pure, Except.pure]
      split <;> exact ⟨_, rfl⟩
    · rename_i h3
      simp only [slice_ok t.val 0 3 (by omega) (by omega)]
      exact ⟨_, rfl⟩
    · exact ⟨_, rfl⟩

theorem isArithmeticOp_ok (t : Token) (h : TokF t) : ∃ b, t.isArithmeticOp = .ok b := by
  obtain ⟨⟨hv, hl⟩, _⟩ := h
  unfold Token.isArithmeticOp
  by_cases hc : (t.cat == 111 && t.len == 1) = true
  · have h1 : t.len = 1 := by simp only [Bool.and_eq_true, beq_iff_eq] at hc; exact hc.2
    simp only [hc, ↓reduceIte, at'_ok (show 0 < t.val.length by omega), bind, Except.bind, pure, Except.pure]
    exact ⟨_, rfl⟩
  · simp only [hc, Bool.false_eq_true, ↓reduceIte, pure, Except.pure]
    exact ⟨_, rfl⟩

theorem valOf_ok (t : Token) (h : TokF t) : valOf t = .ok t.val := by
  obtain ⟨⟨hv, hl⟩, _⟩ := h
  unfold valOf
  rw [slice_ok t.val 0 t.len (by omega) (by omega)]
  simp [← hv]

theorem merge_ok (a b : Token) (ha : TokF a) (hb : TokF b) :
    ∃ r, merge a b = .ok r ∧ ∀ a', r = some a' → TokF a' := by
  obtain ⟨⟨hva, hla⟩, _⟩ := ha
  obtain ⟨⟨hvb, hlb⟩, _⟩ := hb
  unfold merge
  simp only [bind, Except.bind, pure, Except.pure]
  split
  · exact ⟨none, rfl, fun a' h => by cases h⟩
  · split
    · exact ⟨none, rfl, fun a' h => by cases h⟩
    · split
      · exact ⟨none, rfl, fun a' h => by cases h⟩
      · rename_i hsz
        simp only [slice_ok a.val 0 a.len (by omega) (by omega), slice_ok b.val 0 b.len (by omega) (by omega)]
        split
        · rename_i hch
          have hcl := clip_le (((a.val.drop 0).take (a.len - 0) ++ [32] ++ (b.val.drop 0).take (b.len - 0)).length)
          rw [assign_ok _ _ _ _ _ hcl]
          refine ⟨_, rfl, fun a' h => ?_⟩
          cases h
          generalize htmp : (a.val.drop 0).take (a.len - 0) ++ [32] ++ (b.val.drop 0).take (b.len - 0) = tmp at hch hcl ⊢
          refine ⟨⟨by simp [List.length_take]; omega, clip_le_31 _⟩, ?_⟩
          rcases searchKeyword_cases tmp with h0 | ⟨hc1, hc2, hc3⟩
          · rw [h0] at hch; simp at hch
          · exact ⟨Or.inr hc1, (fun h => clip_two (hc2 h)), (fun _ => clip_pos hc3)⟩
        · exact ⟨none, rfl, fun a' h => by cases h⟩

end LibInj.Sqli

namespace LibInj.Sqli
open LibInj

/-- invariant of the scanner state inside `fold` -/
def SInv (s : State) : Prop :=
  s.tv.length = 8 ∧ s.pos ≤ s.input.length ∧ ∀ t ∈ s.tv, TokF t

/-- invariant of the loop variables of `fold` -/
def FInv (f : FS) : Prop := SInv f.s ∧ f.left ≤ f.pos ∧ f.pos ≤ 6 ∧ TokF f.lastComment

theorem tvGet_ok (s : State) (hs : SInv s) (i : Nat) (hi : i < 8) : ∃ t, tvGet s i = .ok t ∧ TokF t := by
  unfold tvGet
  have hlt : i < s.tv.length := by rw [hs.1]; exact hi
  rw [List.getElem?_eq_getElem hlt]
  exact ⟨_, rfl, hs.2.2 _ (List.getElem_mem hlt)⟩

theorem tvSet_inv (s : State) (hs : SInv s) (i : Nat) (hi : i < 8) (t : Token) (ht : TokF t) :
    ∃ s', tvSet s i t = .ok s' ∧ SInv s' ∧ s'.input = s.input ∧ s'.pos = s.pos ∧ s'.flags = s.flags := by
  have hlt : i < s.tv.length := by rw [hs.1]; exact hi
  rw [tvSet_ok s i t hlt]
  refine ⟨_, rfl, ⟨by simp; exact hs.1, hs.2.1, ?_⟩, rfl, rfl, rfl⟩
  intro x hx
  rcases List.mem_or_eq_of_mem_set hx with h | h
  · exact hs.2.2 x h
  · rw [h]; exact ht

theorem special5_ok (s : State) (hs : SInv s) : ∃ b, special5 s = .ok b := by
  unfold special5
  obtain ⟨t0, h0, _⟩ := tvGet_ok s hs 0 (by omega)
  obtain ⟨t1, h1, _⟩ := tvGet_ok s hs 1 (by omega)
  obtain ⟨t2, h2, _⟩ := tvGet_ok s hs 2 (by omega)
  obtain ⟨t3, h3, _⟩ := tvGet_ok s hs 3 (by omega)
  obtain ⟨t4, h4, _⟩ := tvGet_ok s hs 4 (by omega)
  simp only [h0, h1, h2, h3, h4, bind, Except.bind, pure, Except.pure]
  exact ⟨_, rfl⟩

theorem foldSpecial_ok (f : FS) (hf : FInv f) :
    ∃ f', foldSpecial f = .ok f' ∧ FInv f' ∧ f'.s.input = f.s.input ∧ f'.more = f.more := by
  obtain ⟨hs, hlp, hp6, hlc⟩ := hf
  unfold foldSpecial
  by_cases hp : f.pos ≥ maxTokens
  · obtain ⟨b, hb⟩ := special5_ok f.s hs
    simp only [hp, ↓reduceIte, hb, bind, Except.bind, pure, Except.pure]
    cases b with
    | true =>
      simp only [↓reduceIte]
      by_cases hp' : f.pos > maxTokens
      · obtain ⟨t5, h5, ht5⟩ := tvGet_ok f.s hs 5 (by omega)
        obtain ⟨s', hs', hinv', hi', hp'', _⟩ := tvSet_inv f.s hs 1 (by omega) t5 ht5
        simp only [hp', ↓reduceIte, h5, hs']
        exact ⟨_, rfl, ⟨hinv', by simp, by simp, hlc⟩, hi', rfl⟩
      · simp only [hp', ↓reduceIte]
        exact ⟨_, rfl, ⟨hs, by simp, by simp, hlc⟩, rfl, rfl⟩
    | false =>
      simp only [Bool.false_eq_true, ↓reduceIte]
      exact ⟨_, rfl, ⟨hs, hlp, hp6, hlc⟩, rfl, rfl⟩
  · simp only [hp, ↓reduceIte, pure, Except.pure]
    exact ⟨_, rfl, ⟨hs, hlp, hp6, hlc⟩, rfl, rfl⟩

/-- the token-fetching loop: total (given enough fuel), keeps the invariant, never lowers `pos`,
keeps `left` -/
theorem fetch_ok (k : Nat) (fuel : Nat) : ∀ (f : FS), FInv f → f.s.input.length - f.s.pos + 1 < fuel →
    ∃ f', fetch f k fuel = .ok f' ∧ FInv f' ∧ f'.left = f.left ∧ f.pos ≤ f'.pos ∧ f'.s.input = f.s.input := by
  induction fuel with
  | zero => intro f _ hf; omega
  | succ fuel ih =>
    intro f hf hfu
    obtain ⟨hs, hlp, hp6, hlc⟩ := hf
    unfold fetch
    by_cases hc : (f.more && decide (f.pos ≤ maxTokens) && decide (f.pos - f.left < k)) = true
    · have hp5 : f.pos ≤ 5 := by
        simp only [Bool.and_eq_true, decide_eq_true_eq] at hc; exact hc.1.2
      have hcur : ({ f.s with cur := f.pos } : State).cur < ({ f.s with cur := f.pos } : State).tv.length := by
        show f.pos < f.s.tv.length
        rw [hs.1]; omega
      obtain ⟨more, s', hr, q1, q2, q3, q4, q5, q6, q7, q8, q9, q10⟩ := tokenize_ok { f.s with cur := f.pos } hs.2.1 hcur
      simp only at q1 q2 q3 q4 q5 q6 q7 q8 q9 q10
      -- the scanner state after the call keeps the invariant
      have hs' : SInv s' := by
        refine ⟨by rw [q4]; exact hs.1, by rw [q1]; exact q6, ?_⟩
        intro t ht
        obtain ⟨j, hj, hjt⟩ := List.mem_iff_getElem.mp ht
        have hget : s'.tv[j]? = some t := by rw [List.getElem?_eq_getElem hj, hjt]
        by_cases hjc : j = f.pos
        · rw [hjc] at hget
          rcases q10 t hget with h | h
          · exact h
          · exact hs.2.2 t (List.mem_of_getElem? h)
        · rw [q7 j hjc] at hget
          exact hs.2.2 t (List.mem_of_getElem? hget)
      simp only [hc, ↓reduceIte, hr, bind, Except.bind, pure, Except.pure]
      cases more with
      | false =>
        simp only [Bool.false_eq_true, ↓reduceIte]
        -- `more` is now false: the loop condition fails at the next round
        cases fuel with
        | zero => omega
        | succ fuel' =>
          unfold fetch
          simp only [Bool.false_and, Bool.false_eq_true, ↓reduceIte, pure, Except.pure]
          exact ⟨_, rfl, ⟨hs', hlp, hp6, hlc⟩, rfl, Nat.le_refl _, q1⟩
      | true =>
        obtain ⟨hadv, t', ht', htc, ⟨ti, _, _, _, tcat⟩⟩ := q8 rfl
        have hget : tvGet s' s'.cur = .ok t' := by
          unfold tvGet; rw [q3]; show (match s'.tv[f.pos]? with | some t => Except.ok t | none => Except.error Err.tv) = _; rw [ht']
        simp only [↓reduceIte, hget]
        have hfuel : s'.input.length - s'.pos + 1 < fuel := by
          rw [q1]
          show f.s.input.length - s'.pos + 1 < fuel
          have : f.s.pos < s'.pos := hadv
          omega
        split
        · obtain ⟨f', hf', hi', hl', hp', hin'⟩ := ih { f with s := s', more := true, lastComment := t' }
            ⟨hs', hlp, hp6, ⟨ti, tcat⟩⟩ hfuel
          exact ⟨f', hf', hi', hl', hp', by rw [hin']; exact q1⟩
        · obtain ⟨f', hf', hi', hl', hp', hin'⟩ := ih
            { f with s := s', more := true, lastComment := { f.lastComment with cat := 0 }, pos := f.pos + 1 }
            ⟨hs', by simp; omega, by simp; omega,
              hlc.recat 0 ⟨Or.inl rfl, (fun h => absurd h (by decide)), (fun h => absurd h (by decide))⟩⟩ hfuel
          exact ⟨f', hf', hi', hl', by simp at hp'; omega, by rw [hin']; exact q1⟩
    · simp only [hc, Bool.false_eq_true, ↓reduceIte, pure, Except.pure]
      exact ⟨f, rfl, ⟨hs, hlp, hp6, hlc⟩, rfl, Nat.le_refl _, rfl⟩

end LibInj.Sqli

namespace LibInj.Sqli
open LibInj

theorem dec_ok (f : FS) (k : Nat) (hk : k ≤ f.pos) : f.dec k = .ok { f with pos := f.pos - k } := by
  simp [FS.dec, sub, hk, bind, Except.bind, pure, Except.pure]

/-- an iteration outcome that keeps the invariant and the input -/
def StepOK (input : Bytes) : Step → Prop
  | .cont f' => FInv f' ∧ f'.s.input = input
  | .brk f' => FInv f' ∧ f'.s.input = input
  | .ret n f' => FInv f' ∧ f'.s.input = input ∧ n ≤ 7

def TwoOK (f : FS) : Two → Prop
  | .done st => StepOK f.s.input st
  | .next f' => FInv f' ∧ f'.s.input = f.s.input ∧ f'.pos = f.pos ∧ f'.left ≤ f.left ∧ f'.more = f.more ∧ f'.s.pos = f.s.pos

/-- rebuilding the loop variables around an unchanged scanner state -/
theorem finv_vars (f : FS) (hf : FInv f) (p l folds : Nat) (hl : l ≤ p) (hp : p ≤ 6) :
    FInv { f with pos := p, left := l, s := { f.s with folds := folds } } :=
  ⟨⟨hf.1.1, hf.1.2.1, hf.1.2.2⟩, hl, hp, hf.2.2.2⟩

theorem finv_state (f : FS) (hf : FInv f) (s' : State) (hs' : SInv s') (p l folds : Nat) (hl : l ≤ p) (hp : p ≤ 6) :
    FInv { f with pos := p, left := l, s := { s' with folds := folds } } :=
  ⟨⟨hs'.1, hs'.2.1, hs'.2.2⟩, hl, hp, hf.2.2.2⟩

/-- a value whose upper-case image has at least `n` bytes has at least `n` bytes -/
theorem len_of_upper_eq (v lit : Bytes) (h : toUpperCmp lit v = true) : lit.length ≤ v.length := by
  unfold toUpperCmp at h
  have : lit = goUpper v := by simpa using h
  rw [this]
  exact goUpper_length_le _ v (Nat.le_refl _)

theorem funcNames_len (v : Bytes) (h : funcNames.any (fun n => toUpperCmp n v) = true) : 2 ≤ v.length := by
  simp only [List.any_eq_true] at h
  obtain ⟨n, hn, hcmp⟩ := h
  have hl := len_of_upper_eq v n hcmp
  have : 4 ≤ n.length := by
    simp only [funcNames, List.mem_cons, List.mem_nil_iff, or_false] at hn
    rcases hn with rfl | rfl | rfl | rfl | rfl | rfl | rfl | rfl | rfl | rfl | rfl <;> decide +kernel
  omega

end LibInj.Sqli

namespace LibInj.Sqli
open LibInj

theorem catV_lit (c : UInt8) (len : Nat) (h : CatLit c) : CatV c len := catLit_ok h

theorem like_len (v : Bytes) (h : (toUpperCmp (bs "LIKE") v || toUpperCmp (bs "NOT LIKE") v) = true) : 2 ≤ v.length := by
  rcases Bool.or_eq_true _ _ ▸ h with h | h
  · have := len_of_upper_eq v _ h
    have e : (bs "LIKE").length = 4 := by decide +kernel
    omega
  · have := len_of_upper_eq v _ h
    have e : (bs "NOT LIKE").length = 8 := by decide +kernel
    omega

theorem isIfToken_ok (a b : Token) (hb : TokF b) : ∃ v, isIfToken a b = .ok v := by
  unfold isIfToken
  by_cases cIF : (a.cat == 59 && b.cat == 102) = true
  · have hb102 : b.cat = 102 := by simp only [Bool.and_eq_true, beq_iff_eq] at cIF; exact cIF.2
    have hl2 : 2 ≤ b.val.length := by rw [hb.1.1]; exact hb.2.2.1 hb102
    simp only [cIF, ↓reduceIte, at'_ok (show 0 < b.val.length by omega), at'_ok (show 1 < b.val.length by omega),
      bind, Except.bind, pure, Except.pure]
    split <;> exact ⟨_, rfl⟩
  · simp only [cIF, Bool.false_eq_true, ↓reduceIte, pure, Except.pure]
    exact ⟨_, rfl⟩

theorem sinv_folds (s : State) (hs : SInv s) (k : Nat) : SInv { s with folds := k } := ⟨hs.1, hs.2.1, hs.2.2⟩

/-- store a token and rebuild the loop variables -/
theorem set_vars (f : FS) (hf : FInv f) (i : Nat) (t : Token) (hi : i < 8) (ht : TokF t) :
    ∃ s', tvSet f.s i t = .ok s' ∧ SInv s' ∧ s'.input = f.s.input ∧ s'.pos = f.s.pos ∧
      ∀ (p l : Nat), l ≤ p → p ≤ 6 →
        FInv { s := s', pos := p, left := l, more := f.more, lastComment := f.lastComment } ∧
        ∀ k, FInv { s := { s' with folds := k }, pos := p, left := l, more := f.more, lastComment := f.lastComment } := by
  obtain ⟨s', h1, h2, h3, h4, _⟩ := tvSet_inv f.s hf.1 i hi t ht
  exact ⟨s', h1, h2, h3, h4, fun p l hl hp => ⟨⟨h2, hl, hp, hf.2.2.2⟩, fun k => ⟨sinv_folds s' h2 k, hl, hp, hf.2.2.2⟩⟩⟩

set_option maxHeartbeats 1000000 in
/-- **the two-token stage never errs and keeps the invariant** -/
theorem foldTwo_ok (f : FS) (hf : FInv f) (h2 : f.left + 2 ≤ f.pos) : ∃ r, foldTwo f = .ok r ∧ TwoOK f r := by
  have hfull := hf
  obtain ⟨hs, hlp, hp6, hlc⟩ := hf
  obtain ⟨a, ha, hta⟩ := tvGet_ok f.s hs f.left (by omega)
  obtain ⟨b, hb, htb⟩ := tvGet_ok f.s hs (f.left + 1) (by omega)
  obtain ⟨bu, hbu⟩ := isUnaryOp_ok b htb
  obtain ⟨mr, hmr, hmok⟩ := merge_ok a b hta htb
  obtain ⟨ba, hba⟩ := isArithmeticOp_ok b htb
  obtain ⟨isIF, hIF⟩ := isIfToken_ok a b htb
  have hva := valOf_ok a hta
  have d1 := dec_ok f 1 (by omega)
  have d2 := dec_ok f 2 (by omega)
  -- shapes of the outcomes
  have done1 : ∀ l, l ≤ f.pos - 1 → TwoOK f (.done (.cont { ({ f with pos := f.pos - 1 } : FS).folds 1 with left := l })) := by
    intro l hl
    exact ⟨finv_vars f hfull (f.pos - 1) l (f.s.folds + 1) hl (by omega), rfl⟩
  have done1' : TwoOK f (.done (.cont (({ f with pos := f.pos - 1 } : FS).folds 1))) := by
    exact ⟨finv_vars f hfull (f.pos - 1) f.left (f.s.folds + 1) (by omega) (by omega), rfl⟩
  have setdone : ∀ (i : Nat) (t : Token), i < 8 → TokF t → ∀ (p l k : Nat), l ≤ p → p ≤ 6 →
      ∃ s', tvSet f.s i t = .ok s' ∧
        FInv { f with s := { s' with folds := s'.folds + k }, pos := p, left := l } ∧ s'.input = f.s.input ∧ s'.pos = f.s.pos ∧ SInv s' := by
    intro i t hi ht p l k hl hp
    obtain ⟨s', h1, h2', h3, h4, _⟩ := tvSet_inv f.s hs i (by omega) t ht
    exact ⟨s', h1, ⟨⟨h2'.1, h2'.2.1, h2'.2.2⟩, hl, hp, hlc⟩, h3, h4, h2'⟩
  unfold foldTwo
  simp only [ha, hb, hbu, bind, Except.bind]
  simp only [hmr]
  simp only [hba]
  simp only [hva]
  simp only [hIF]
  simp only [d1]
  simp only [d2]
  simp only [pure, Except.pure]
  by_cases c1 : (a.cat == 115 && b.cat == 115) = true
  · rw [if_pos c1]; exact ⟨_, rfl, done1'⟩
  rw [if_neg c1]
  by_cases c2 : (a.cat == 59 && b.cat == 59) = true
  · rw [if_pos c2]; exact ⟨_, rfl, done1'⟩
  rw [if_neg c2]
  by_cases c3 : ((a.cat == 111 || a.cat == 38) && (bu || b.cat == 116)) = true
  · rw [if_pos c3]; exact ⟨_, rfl, done1 0 (by omega)⟩
  rw [if_neg c3]
  by_cases c4 : (a.cat == 40 && bu) = true
  · rw [if_pos c4]
    refine ⟨_, rfl, ?_⟩
    show TwoOK f (.done (.cont { ({ f with pos := f.pos - 1 } : FS).folds 1 with left := _ }))
    apply done1
    simp only [FS.folds]
    by_cases h0 : f.left > 0 <;> simp [h0] <;> omega
  rw [if_neg c4]
  -- merge
  cases mr with
  | some a' =>
    simp only []
    obtain ⟨s', h1, _, h3, h4, hsi⟩ := setdone f.left a' (by omega) (hmok a' rfl) 0 0 0 (by omega) (by omega)
    simp only [h1, dec_ok { f with s := s' } 1 (by show 1 ≤ f.pos; omega)]
    refine ⟨_, rfl, ?_⟩
    refine ⟨⟨⟨hsi.1, hsi.2.1, hsi.2.2⟩, ?_, by show f.pos - 1 ≤ 6; omega, hlc⟩, h3⟩
    show (if f.left > 0 then f.left - 1 else f.left) ≤ f.pos - 1
    by_cases h0 : f.left > 0 <;> simp [h0] <;> omega
  | none =>
    simp only []
    -- a rule that stores token `t` in slot `i` and continues with unchanged loop variables
    have setcont : ∀ (i : Nat) (t : Token), i < 8 → TokF t →
        ∃ s', tvSet f.s i t = .ok s' ∧
          TwoOK f (Two.done (Step.cont { s := s', pos := f.pos, left := f.left, more := f.more, lastComment := f.lastComment })) := by
      intro i t hi ht
      obtain ⟨s', h1, _, h3, _, hv⟩ := set_vars f hfull i t hi ht
      exact ⟨s', h1, (hv f.pos f.left hlp hp6).1, h3⟩
    have setdrop : ∀ (i : Nat) (t : Token), i < 8 → TokF t →
        ∃ s', tvSet f.s i t = .ok s' ∧
          ({ s := s', pos := f.pos, left := f.left, more := f.more, lastComment := f.lastComment } : FS).dec 1 =
            .ok { s := s', pos := f.pos - 1, left := f.left, more := f.more, lastComment := f.lastComment } ∧
          TwoOK f (Two.done (Step.cont
            { s := (({ s := s', pos := f.pos - 1, left := f.left, more := f.more, lastComment := f.lastComment } : FS).folds 1).s,
              pos := (({ s := s', pos := f.pos - 1, left := f.left, more := f.more, lastComment := f.lastComment } : FS).folds 1).pos,
              left := 0,
              more := (({ s := s', pos := f.pos - 1, left := f.left, more := f.more, lastComment := f.lastComment } : FS).folds 1).more,
              lastComment := (({ s := s', pos := f.pos - 1, left := f.left, more := f.more, lastComment := f.lastComment } : FS).folds 1).lastComment })) := by
      intro i t hi ht
      obtain ⟨s', h1, _, h3, _, hv⟩ := set_vars f hfull i t hi ht
      refine ⟨s', h1, dec_ok _ 1 (by show 1 ≤ f.pos; omega), ?_⟩
      exact ⟨(hv (f.pos - 1) 0 (by omega) (by omega)).2 _, h3⟩
    have next_same : TwoOK f (.next f) := ⟨hfull, rfl, rfl, Nat.le_refl _, rfl, rfl⟩
    by_cases c5 : isIF = true
    · rw [if_pos c5]
      obtain ⟨s', h1, h2⟩ := setcont (f.left + 1) { b with cat := 84 } (by omega) (htb.recat 84 (catLit_ok (by decide)))
      simp only [h1]; exact ⟨_, rfl, h2⟩
    rw [if_neg c5]
    by_cases c6 : ((a.cat == 110 || a.cat == 118) && b.cat == 40 && funcNames.any fun n => toUpperCmp n a.val) = true
    · rw [if_pos c6]
      have hfn : funcNames.any (fun n => toUpperCmp n a.val) = true := by
        simp only [Bool.and_eq_true] at c6; exact c6.2
      have hl := funcNames_len a.val hfn
      obtain ⟨s', h1, h2⟩ := setcont f.left { a with cat := 102 } (by omega)
        (hta.recat 102 ⟨Or.inr (by decide), (fun _ => by rw [← hta.1.1]; exact hl), (fun h => absurd h (by decide))⟩)
      simp only [h1]; exact ⟨_, rfl, h2⟩
    rw [if_neg c6]
    by_cases c7 : (a.cat == 107 && (toUpperCmp (bs "IN") a.val || toUpperCmp (bs "NOT IN") a.val)) = true
    · rw [if_pos c7]
      obtain ⟨s', h1, h2⟩ := setcont f.left { a with cat := if (b.cat == 40) = true then 111 else 110 } (by omega)
        (hta.recat _ (by split <;> exact catLit_ok (by decide)))
      simp only [h1]; exact ⟨_, rfl, h2⟩
    rw [if_neg c7]
    by_cases c8 : (a.cat == 111 && (toUpperCmp (bs "LIKE") a.val || toUpperCmp (bs "NOT LIKE") a.val)) = true
    · rw [if_pos c8]
      by_cases c8b : (b.cat == 40) = true
      · rw [if_pos c8b]
        have hl := like_len a.val (by simp only [Bool.and_eq_true] at c8; exact c8.2)
        obtain ⟨s', h1, _, h3, h4, hv⟩ := set_vars f hfull f.left { a with cat := 102 } (by omega)
          (hta.recat 102 ⟨Or.inr (by decide), (fun _ => by rw [← hta.1.1]; exact hl), (fun h => absurd h (by decide))⟩)
        simp only [h1]
        exact ⟨_, rfl, (hv f.pos f.left hlp hp6).1, h3, rfl, Nat.le_refl _, rfl, h4⟩
      · rw [if_neg c8b]
        exact ⟨_, rfl, next_same⟩
    rw [if_neg c8]
    by_cases c9 : (a.cat == 116 && (b.cat == 110 || b.cat == 49 || b.cat == 116 || b.cat == 40 || b.cat == 102 || b.cat == 118 || b.cat == 115)) = true
    · rw [if_pos c9]
      obtain ⟨s', h1, h2, h3⟩ := setdrop f.left b (by omega) htb
      simp only [h1]; simp only [h2]; exact ⟨_, rfl, h3⟩
    rw [if_neg c9]
    by_cases c10 : (a.cat == 65 && b.cat == 110) = true
    · rw [if_pos c10]
      by_cases c10b : (indexByte b.val 95).isSome = true
      · rw [if_pos c10b]
        obtain ⟨s', h1, _, h3, h4, hv⟩ := set_vars f hfull (f.left + 1) { b with cat := 116 } (by omega)
          (htb.recat 116 (catLit_ok (by decide)))
        simp only [h1]
        exact ⟨_, rfl, (hv f.pos 0 (by omega) hp6).1, h3, rfl, Nat.zero_le _, rfl, h4⟩
      · rw [if_neg c10b]
        exact ⟨_, rfl, next_same⟩
    rw [if_neg c10]
    by_cases c11 : (a.cat == 92) = true
    · rw [if_pos c11]
      by_cases c11b : ba = true
      · rw [if_pos c11b]
        obtain ⟨s', h1, _, h3, _, hv⟩ := set_vars f hfull f.left { a with cat := 49 } (by omega)
          (hta.recat 49 (catLit_ok (by decide)))
        simp only [h1]
        exact ⟨_, rfl, (hv f.pos 0 (by omega) hp6).1, h3⟩
      · rw [if_neg c11b]
        obtain ⟨s', h1, h2, h3⟩ := setdrop f.left b (by omega) htb
        simp only [h1]; simp only [h2]; exact ⟨_, rfl, h3⟩
    rw [if_neg c11]
    by_cases c12 : (a.cat == 40 && b.cat == 40) = true
    · rw [if_pos c12]; exact ⟨_, rfl, done1 0 (by omega)⟩
    rw [if_neg c12]
    by_cases c13 : (a.cat == 41 && b.cat == 41) = true
    · rw [if_pos c13]; exact ⟨_, rfl, done1 0 (by omega)⟩
    rw [if_neg c13]
    by_cases c14 : (a.cat == 123 && b.cat == 110) = true
    · rw [if_pos c14]
      by_cases c14b : (b.len == 0) = true
      · rw [if_pos c14b]
        obtain ⟨s', h1, _, h3, _, hv⟩ := set_vars f hfull (f.left + 1) { b with cat := 88 } (by omega)
          (htb.recat 88 (catLit_ok (by decide)))
        simp only [h1]
        exact ⟨_, rfl, (hv f.pos f.left hlp hp6).1, h3, by omega⟩
      · rw [if_neg c14b]
        refine ⟨_, rfl, ?_⟩
        exact ⟨finv_vars f hfull (f.pos - 2) 0 (f.s.folds + 2) (by omega) (by omega), rfl⟩
    rw [if_neg c14]
    by_cases c15 : (b.cat == 125) = true
    · rw [if_pos c15]; exact ⟨_, rfl, done1 0 (by omega)⟩
    rw [if_neg c15]
    exact ⟨_, rfl, next_same⟩

end LibInj.Sqli

namespace LibInj.Sqli
open LibInj

set_option maxHeartbeats 1000000 in
/-- **the three-token stage never errs and keeps the invariant** -/
theorem foldThree_ok (f : FS) (hf : FInv f) (h3 : f.left + 3 ≤ f.pos) :
    ∃ st, foldThree f = .ok st ∧ StepOK f.s.input st := by
  have hfull := hf
  obtain ⟨hs, hlp, hp6, hlc⟩ := hf
  obtain ⟨a, ha, hta⟩ := tvGet_ok f.s hs f.left (by omega)
  obtain ⟨b, hb, htb⟩ := tvGet_ok f.s hs (f.left + 1) (by omega)
  obtain ⟨c, hc, htc⟩ := tvGet_ok f.s hs (f.left + 2) (by omega)
  obtain ⟨bu, hbu⟩ := isUnaryOp_ok b htb
  have hva := valOf_ok a hta
  have hvb := valOf_ok b htb
  have d2 := dec_ok f 2 (by omega)
  have drop2 : StepOK f.s.input (.cont { s := f.s, pos := f.pos - 2, left := 0, more := f.more, lastComment := f.lastComment }) :=
    ⟨⟨hs, Nat.zero_le _, by show f.pos - 2 ≤ 6; omega, hlc⟩, rfl⟩
  -- store `c` in the middle slot, drop `k` tokens, restart
  have setdrop : ∀ (k : Nat), k ≤ f.pos →
      ∃ s', tvSet f.s (f.left + 1) c = .ok s' ∧
        ({ s := s', pos := f.pos, left := f.left, more := f.more, lastComment := f.lastComment } : FS).dec k =
          .ok { s := s', pos := f.pos - k, left := f.left, more := f.more, lastComment := f.lastComment } ∧
        StepOK f.s.input (.cont { s := s', pos := f.pos - k, left := 0, more := f.more, lastComment := f.lastComment }) := by
    intro k hk
    obtain ⟨s', h1, _, hi, _, hv⟩ := set_vars f hfull (f.left + 1) c (by omega) htc
    exact ⟨s', h1, dec_ok _ k hk, (hv (f.pos - k) 0 (Nat.zero_le _) (by omega)).1, hi⟩
  unfold foldThree
  simp only [ha, hb, hc, hbu, bind, Except.bind]
  simp only [hva]
  simp only [hvb]
  simp only [d2]
  simp only [pure, Except.pure]
  by_cases c1 : (a.cat == 49 && b.cat == 111 && c.cat == 49) = true
  · rw [if_pos c1]; exact ⟨_, rfl, drop2⟩
  rw [if_neg c1]
  by_cases c2 : (a.cat == 111 && b.cat != 40 && c.cat == 111) = true
  · rw [if_pos c2]; exact ⟨_, rfl, drop2⟩
  rw [if_neg c2]
  by_cases c3 : (a.cat == 38 && c.cat == 38) = true
  · rw [if_pos c3]; exact ⟨_, rfl, drop2⟩
  rw [if_neg c3]
  by_cases c4 : (a.cat == 118 && b.cat == 111 && (c.cat == 118 || c.cat == 49 || c.cat == 110)) = true
  · rw [if_pos c4]; exact ⟨_, rfl, drop2⟩
  rw [if_neg c4]
  by_cases c5 : ((a.cat == 110 || a.cat == 49) && b.cat == 111 && (c.cat == 49 || c.cat == 110)) = true
  · rw [if_pos c5]; exact ⟨_, rfl, drop2⟩
  rw [if_neg c5]
  by_cases c6 : ((a.cat == 110 || a.cat == 49 || a.cat == 118 || a.cat == 115) && b.cat == 111 &&
      b.val == [58, 58] && c.cat == 116) = true
  · rw [if_pos c6]
    exact ⟨_, rfl, finv_vars f hfull (f.pos - 2) 0 (f.s.folds + 2) (Nat.zero_le _) (by omega), rfl⟩
  rw [if_neg c6]
  by_cases c7 : ((a.cat == 110 || a.cat == 49 || a.cat == 115 || a.cat == 118) && b.cat == 44 &&
      (c.cat == 49 || c.cat == 110 || c.cat == 115 || c.cat == 118)) = true
  · rw [if_pos c7]; exact ⟨_, rfl, drop2⟩
  rw [if_neg c7]
  by_cases c8 : ((a.cat == 69 || a.cat == 66 || a.cat == 44) && bu && c.cat == 40) = true
  · rw [if_pos c8]
    obtain ⟨s', h1, h2, h3⟩ := setdrop 1 (by omega)
    simp only [h1]; simp only [h2]; exact ⟨_, rfl, h3⟩
  rw [if_neg c8]
  by_cases c9 : ((a.cat == 107 || a.cat == 69 || a.cat == 66) && bu &&
      (c.cat == 49 || c.cat == 110 || c.cat == 118 || c.cat == 115 || c.cat == 102)) = true
  · rw [if_pos c9]
    obtain ⟨s', h1, h2, h3⟩ := setdrop 1 (by omega)
    simp only [h1]; simp only [h2]; exact ⟨_, rfl, h3⟩
  rw [if_neg c9]
  by_cases c10 : (a.cat == 44 && bu && (c.cat == 49 || c.cat == 110 || c.cat == 118 || c.cat == 115)) = true
  · rw [if_pos c10]
    obtain ⟨s', h1, h2, h3⟩ := setdrop 3 (by omega)
    simp only [h1]; simp only [h2]; exact ⟨_, rfl, h3⟩
  rw [if_neg c10]
  by_cases c11 : (a.cat == 44 && bu && c.cat == 102) = true
  · rw [if_pos c11]
    obtain ⟨s', h1, h2, h3⟩ := setdrop 1 (by omega)
    simp only [h1]; simp only [h2]; exact ⟨_, rfl, h3⟩
  rw [if_neg c11]
  by_cases c12 : (a.cat == 110 && b.cat == 46 && c.cat == 110) = true
  · rw [if_pos c12]; exact ⟨_, rfl, drop2⟩
  rw [if_neg c12]
  by_cases c13 : (a.cat == 69 && b.cat == 46 && c.cat == 110) = true
  · rw [if_pos c13]
    obtain ⟨s', h1, h2, h3⟩ := setdrop 1 (by omega)
    simp only [h1]; simp only [h2]; exact ⟨_, rfl, h3⟩
  rw [if_neg c13]
  have hnext : StepOK f.s.input (.cont { s := f.s, pos := f.pos, left := f.left + 1, more := f.more, lastComment := f.lastComment }) :=
    ⟨⟨hs, by show f.left + 1 ≤ f.pos; omega, hp6, hlc⟩, rfl⟩
  by_cases c14 : (a.cat == 102 && b.cat == 40 && c.cat != 41) = true
  · rw [if_pos c14]
    by_cases c14b : toUpperCmp (bs "USER") a.val = true
    · rw [if_pos c14b]
      obtain ⟨s', h1, _, hi, _, hv⟩ := set_vars f hfull f.left { a with cat := 110 } (by omega)
        (hta.recat 110 (catLit_ok (by decide)))
      simp only [h1]
      exact ⟨_, rfl, (hv f.pos (f.left + 1) (by omega) hp6).1, hi⟩
    · rw [if_neg c14b]
      exact ⟨_, rfl, hnext⟩
  rw [if_neg c14]
  exact ⟨_, rfl, hnext⟩

end LibInj.Sqli

namespace LibInj.Sqli
open LibInj

theorem fetch_fuel_ok (f : FS) : f.s.input.length - f.s.pos + 1 < fetchFuel f.s.input.length := by
  unfold fetchFuel; omega

/-- **one iteration of the main loop never errs and keeps the invariant** -/
theorem foldBody_ok (f : FS) (hf : FInv f) : ∃ st, foldBody f = .ok st ∧ StepOK f.s.input st := by
  unfold foldBody
  obtain ⟨f1, h1, hf1, hi1, _⟩ := foldSpecial_ok f hf
  simp only [h1, bind, Except.bind, pure, Except.pure]
  by_cases cb : (!f1.more || decide (f1.left ≥ maxTokens)) = true
  · rw [if_pos cb]
    exact ⟨_, rfl, ⟨hf1.1, Nat.le_refl _, hf1.2.2.1, hf1.2.2.2⟩, hi1⟩
  rw [if_neg cb]
  obtain ⟨f2, h2, hf2, hl2, hp2, hi2⟩ := fetch_ok 2 _ f1 hf1 (fetch_fuel_ok f1)
  simp only [h2]
  by_cases c2 : f2.pos - f2.left < 2
  · rw [if_pos c2]
    exact ⟨_, rfl, ⟨hf2.1, Nat.le_refl _, hf2.2.2.1, hf2.2.2.2⟩, by rw [← hi1, ← hi2]⟩
  rw [if_neg c2]
  obtain ⟨r, hr, hrok⟩ := foldTwo_ok f2 hf2 (by omega)
  simp only [hr]
  cases r with
  | done st =>
    simp only []
    refine ⟨_, rfl, ?_⟩
    have : f2.s.input = f.s.input := by rw [hi2, hi1]
    rw [← this]; exact hrok
  | next f3 =>
    obtain ⟨hf3, hi3, hp3, hl3, hm3, hsp3⟩ := hrok
    simp only []
    obtain ⟨f4, h4, hf4, hl4, hp4, hi4⟩ := fetch_ok 3 _ f3 hf3 (fetch_fuel_ok f3)
    simp only [h4]
    have hin : f4.s.input = f.s.input := by rw [hi4, hi3, hi2, hi1]
    by_cases c3 : f4.pos - f4.left < 3
    · rw [if_pos c3]
      exact ⟨_, rfl, ⟨hf4.1, Nat.le_refl _, hf4.2.2.1, hf4.2.2.2⟩, hin⟩
    rw [if_neg c3]
    obtain ⟨st, hst, hstok⟩ := foldThree_ok f4 hf4 (by omega)
    exact ⟨st, hst, by rw [← hin]; exact hstok⟩

end LibInj.Sqli

namespace LibInj.Sqli
open LibInj

theorem maxTokens_eq : maxTokens = 5 := rfl

/-- **the main loop of `fold`**: with any fuel it either runs out of fuel or returns a token count
`≤ 5` with the scanner invariant intact — no index, slice or token-vector error is reachable. -/
theorem foldLoop_ok (fuel : Nat) : ∀ (f : FS), FInv f →
    (∃ n f', foldLoop f fuel = .ok (n, f') ∧ SInv f'.s ∧ f'.s.input = f.s.input ∧ n ≤ 7) ∨
      foldLoop f fuel = .error .fuel := by
  induction fuel with
  | zero => intro f _; exact Or.inr rfl
  | succ fuel ih =>
    intro f hf
    unfold foldLoop
    obtain ⟨st, hst, hok⟩ := foldBody_ok f hf
    simp only [hst, bind, Except.bind, pure, Except.pure]
    cases st with
    | cont f' =>
      simp only []
      rcases ih f' hok.1 with ⟨n, f'', h1, h2, h3, h4⟩ | h
      · exact Or.inl ⟨n, f'', h1, h2, by rw [h3]; exact hok.2, h4⟩
      · exact Or.inr h
    | ret n f' =>
      simp only []
      exact Or.inl ⟨n, f', rfl, hok.1.1, hok.2.1, hok.2.2⟩
    | brk f' =>
      simp only []
      obtain ⟨⟨hs, hlp, hp6, hlc⟩, hin⟩ := hok
      left
      by_cases ce : (decide (f'.left < maxTokens) && f'.lastComment.cat == 99) = true
      · rw [if_pos ce]
        have hl5 : f'.left < 5 := by simp only [Bool.and_eq_true, maxTokens_eq] at ce; exact of_decide_eq_true ce.1
        obtain ⟨s', h1, h2, h3, _⟩ := tvSet_inv f'.s hs f'.left (by omega) f'.lastComment hlc
        simp only [h1]
        refine ⟨_, _, rfl, h2, by rw [← hin]; exact h3, ?_⟩
        show (if f'.left + 1 > maxTokens then maxTokens else f'.left + 1) ≤ 7
        rw [maxTokens_eq]; split <;> omega
      · rw [if_neg ce]
        refine ⟨_, _, rfl, hs, hin, ?_⟩
        show (if f'.left > maxTokens then maxTokens else f'.left) ≤ 7
        rw [maxTokens_eq]; split <;> omega

end LibInj.Sqli

namespace LibInj.Sqli
open LibInj

/-- one `tokenize` call from a state satisfying the scanner invariant -/
theorem tokenize_sinv (s : State) (hs : SInv s) (hc : s.cur < 8) :
    ∃ more s', tokenize s = .ok (more, s') ∧ SInv s' ∧ TokStep s more s' := by
  have hcur : s.cur < s.tv.length := by rw [hs.1]; exact hc
  obtain ⟨more, s', hr, hstep⟩ := tokenize_ok s hs.2.1 hcur
  refine ⟨more, s', hr, ?_, hstep⟩
  obtain ⟨q1, q2, q3, q4, q5, q6, q7, q8, q9, q10⟩ := hstep
  refine ⟨by rw [q4]; exact hs.1, by rw [q1]; exact q6, ?_⟩
  intro t ht
  obtain ⟨j, hj, hjt⟩ := List.mem_iff_getElem.mp ht
  have hget : s'.tv[j]? = some t := by rw [List.getElem?_eq_getElem hj, hjt]
  by_cases hjc : j = s.cur
  · rw [hjc] at hget
    rcases q10 t hget with h | h
    · exact h
    · exact hs.2.2 t (List.mem_of_getElem? h)
  · rw [q7 j hjc] at hget
    exact hs.2.2 t (List.mem_of_getElem? hget)

/-- the leading loop of `fold` is total and keeps the scanner invariant -/
theorem skipLoop_ok (fuel : Nat) : ∀ (s : State), SInv s → s.cur = 0 → s.input.length - s.pos + 1 < fuel →
    ∃ more s', skipLoop s fuel = .ok (more, s') ∧ SInv s' ∧ s'.input = s.input ∧ s'.cur = 0 := by
  induction fuel with
  | zero => intro s _ _ h; omega
  | succ fuel ih =>
    intro s hs hc hfu
    unfold skipLoop
    obtain ⟨more, s', hr, hs', q1, q2, q3, q4, q5, q6, q7, q8, q9, q10⟩ := tokenize_sinv s hs (by omega)
    simp only [hr, bind, Except.bind, pure, Except.pure]
    cases more with
    | false =>
      simp only [Bool.not_false, ↓reduceIte]
      exact ⟨_, _, rfl, hs', q1, by rw [q3]; exact hc⟩
    | true =>
      simp only [Bool.not_true, Bool.false_eq_true, ↓reduceIte]
      obtain ⟨t, ht, htf⟩ := tvGet_ok s' hs' s'.cur (by rw [q3]; omega)
      obtain ⟨bu, hbu⟩ := isUnaryOp_ok t htf
      simp only [ht, hbu, g, orM, toBool, bind, Except.bind, pure, Except.pure]
      have hadv := (q8 rfl).1
      have hnext : ∃ more s'', skipLoop s' fuel = .ok (more, s'') ∧ SInv s'' ∧ s''.input = s.input ∧ s''.cur = 0 := by
        obtain ⟨m, s'', h1, h2, h3, h4⟩ := ih s' hs' (by rw [q3]; exact hc) (by rw [q1]; omega)
        exact ⟨m, s'', h1, h2, by rw [h3]; exact q1, h4⟩
      by_cases c1 : (t.cat == 99 || t.cat == 40 || t.cat == 116) = true
      · simp only [c1, ↓reduceIte, Bool.not_true, Bool.false_eq_true]
        exact hnext
      · simp only [c1, Bool.false_eq_true, ↓reduceIte]
        cases bu with
        | true => simp only [Bool.not_true, Bool.false_eq_true, ↓reduceIte]; exact hnext
        | false =>
          simp only [Bool.not_false, ↓reduceIte]
          exact ⟨_, _, rfl, hs', q1, by rw [q3]; exact hc⟩

end LibInj.Sqli
