import LibInj.Proofs.FoldLoop
set_option linter.unusedSimpArgs false
set_option linter.unusedVariables false
/-! Safety and termination of `fold` (C01): no index, slice, token-vector or negative-length error,
and the fuel of every loop suffices. Parts: `FoldBase` (token facts, invariants), `FoldRel` (measure,
window relation), `FoldFetch`, `FoldRules` (two- and three-token rules), `FoldLoop`. -/
namespace LibInj.Sqli
open LibInj

/-- **`fold` is total**: from a state satisfying the scanner invariant whose window is empty beyond
slot 0 (in particular the initial state) it returns a token count `≤ 7` -/
theorem fold_ok (s : State) (hs : SInv s) (hz : ∀ j t, j ≠ 0 → s.tv[j]? = some t → t.cat = 0) :
    ∃ n s', fold s = .ok (n, s') ∧ SInv s' ∧ s'.input = s.input ∧ n ≤ 7 ∧ (n ≠ 0 → XFin s') := by
  unfold fold
  obtain ⟨more, s1, h1, hs1, hi1, hc1, hpost⟩ := skipLoop_ok (s.input.length + 2) { s with cur := 0 }
    ⟨hs.1, hs.2.1, hs.2.2⟩ rfl hz (by show s.input.length - s.pos + 1 < s.input.length + 2; omega)
  simp only [h1, bind, Except.bind, pure, Except.pure]
  cases more with
  | false =>
    simp only [Bool.not_false, ↓reduceIte]
    exact ⟨_, _, rfl, hs1, hi1, by omega, fun h => absurd rfl h⟩
  | true =>
    simp only [Bool.not_true, Bool.false_eq_true, ↓reduceIte]
    obtain ⟨p1, p2, p3⟩ := hpost rfl
    have hf0 : FInv { s := s1, pos := 1, left := 0, more := true, lastComment := {} } :=
      ⟨hs1, Nat.zero_le _, by show 1 ≤ 6; omega, tokF_default⟩
    have hx0 : XInv { s := s1, pos := 1, left := 0, more := true, lastComment := {} } := by
      have hnc : ¬ hasCom { s := s1, pos := 1, left := 0, more := true, lastComment := {} } := by
        rintro ⟨u, hu, h99⟩
        rcases hu with hu | hu
        · exact p2 u hu h99
        · rw [hu] at h99; exact absurd (show (({} : Token).cat = 99) from h99) (by decide)
      exact ⟨p1, fun _ => hnc, fun _ t ht hn => ⟨p3 t ht hn, fun hc => absurd hc hnc⟩⟩
    have hfuel : loopT { s := s1, pos := 1, left := 0, more := true, lastComment := {} } < foldFuel s1.input.length := by
      have hm := mu_le { s := s1, pos := 1, left := 0, more := true, lastComment := {} } (by show 1 ≤ 6; omega)
      unfold loopT bigM foldFuel
      simp only [↓reduceIte]
      have : (s1.input.length - s1.pos) * 1015 ≤ 1015 * s1.input.length := by
        have : s1.input.length - s1.pos ≤ s1.input.length := Nat.sub_le _ _
        omega
      omega
    obtain ⟨n, f', h2, h3, h4, h5, h6⟩ := foldLoop_ok (foldFuel s1.input.length) _ hf0 hfuel
    simp only [h2]
    exact ⟨_, _, rfl, h3, by rw [h4]; exact hi1, h5, fun _ => h6 hx0⟩

end LibInj.Sqli
