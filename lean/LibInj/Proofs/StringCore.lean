import LibInj.Sqli.Token
import LibInj.Spec.Quote
/-! Refinement: the `IndexByte`-jumping, backward-counting loop of `parseStringCore` computes the
one-pass automaton `Spec.scan`, for every content and every delimiter other than the backslash. -/
namespace LibInj.Sqli
open LibInj LibInj.Spec

theorem trailingBs_snoc (s : Bytes) (c : UInt8) :
    trailingBs (s ++ [c]) = if c == 92 then trailingBs s + 1 else 0 := by
  simp [trailingBs, List.takeWhile_cons, isBackslash]
  split <;> simp_all

theorem take_succ_of_lt (s : Bytes) (k : Nat) (h : k < s.length) :
    s.take (k+1) = s.take k ++ [s[k]] := List.take_succ_eq_append_getElem h

theorem esc_snoc (s : Bytes) (c : UInt8) :
    isBackslashEscaped (s ++ [c]) = if c == 92 then !isBackslashEscaped s else false := by
  unfold isBackslashEscaped
  rw [trailingBs_snoc]
  split
  · generalize trailingBs s = n
    rcases Nat.mod_two_eq_zero_or_one n with h | h <;> simp [Nat.add_mod, h]
  · simp

theorem scan_cons (d c : UInt8) (rest : Bytes) (odd : Bool) (n : Nat) :
    scan d (c :: rest) odd n =
      if c == d then
        if odd then scan d rest false (n + 1)
        else match rest with
          | c' :: rest' => if c' == d then scan d rest' false (n + 2) else some n
          | [] => some n
      else if c == 92 then scan d rest (!odd) (n + 1)
      else scan d rest false (n + 1) := by
  cases rest <;> simp only [scan]

/-- the automaton walks over the non-delimiter bytes that IndexByte jumps over -/
theorem scan_skip (content : Bytes) (d : UInt8) (hd : d ≠ 92) :
    ∀ (i k : Nat), indexByte (content.drop k) d = some i →
      scan d (content.drop k) (isBackslashEscaped (content.take k)) k
        = scan d (content.drop (k+i)) (isBackslashEscaped (content.take (k+i))) (k+i) := by
  intro i
  induction i with
  | zero => intro k _; simp
  | succ i ih =>
    intro k h
    have hk : k < content.length := by
      rcases Nat.lt_or_ge k content.length with h' | h'
      · exact h'
      · simp [List.drop_eq_nil_of_le h', indexByte] at h
    rw [List.drop_eq_getElem_cons hk] at h ⊢
    by_cases hc : (content[k] == d) = true
    · simp [indexByte, hc] at h
    · have hne' : (content[k] == d) = false := by simpa using hc
      cases hi : indexByte (List.drop (k + 1) content) d with
      | none => simp [indexByte, hne', hi] at h
      | some j =>
        simp [indexByte, hne', hi] at h
        subst h
        have := ih (k+1) hi
        rw [scan_cons, hne']
        have e : k + (j + 1) = k + 1 + j := by omega
        rw [e, ← this, take_succ_of_lt content k hk, esc_snoc]
        by_cases hb : content[k] = 92
        · simp [hb]
        · simp [hb]

theorem scan_none (content : Bytes) (d : UInt8) :
    ∀ (k : Nat) (odd : Bool) (n : Nat), indexByte (content.drop k) d = none →
      scan d (content.drop k) odd n = none := by
  intro k
  generalize content.drop k = r
  induction r with
  | nil => intros; simp [scan]
  | cons x xs ih =>
    intro odd n h
    by_cases hc : (x == d) = true
    · simp [indexByte, hc] at h
    · have hne' : (x == d) = false := by simpa using hc
      have hx : indexByte xs d = none := by
        cases hi : indexByte xs d <;> simp [indexByte, hne', hi] at h ⊢
      rw [scan_cons, hne']
      simp only [Bool.false_eq_true, ite_false]
      split <;> exact ih _ _ hx

theorem indexByte_some_lt (s : Bytes) (d : UInt8) (i : Nat) (h : indexByte s d = some i) :
    ∃ hlt : i < s.length, s[i] = d := by
  induction s generalizing i with
  | nil => simp [indexByte] at h
  | cons x xs ih =>
    by_cases hc : (x == d) = true
    · simp [indexByte, hc] at h; subst h; exact ⟨by simp, by simpa using hc⟩
    · have hne' : (x == d) = false := by simpa using hc
      cases hi : indexByte xs d with
      | none => simp [indexByte, hne', hi] at h
      | some j =>
        simp [indexByte, hne', hi] at h; subst h
        obtain ⟨h1, h2⟩ := ih j hi
        exact ⟨by simp; omega, by simpa using h2⟩

theorem coreLoop_scan (content : Bytes) (d : UInt8) (hd : d ≠ 92) :
    ∀ (fuel k : Nat), k ≤ content.length → content.length - k < fuel →
      coreLoop content d k fuel
        = .ok (scan d (content.drop k) (isBackslashEscaped (content.take k)) k) := by
  intro fuel
  induction fuel with
  | zero => intro k _ h; omega
  | succ fuel ih =>
    intro k hk hf
    unfold coreLoop
    cases hi : indexByte (content.drop k) d with
    | none => simp [scan_none content d k _ _ hi]
    | some i =>
      obtain ⟨hlt, hq⟩ := indexByte_some_lt _ _ _ hi
      simp at hlt hq
      have hq' : k + i < content.length := by omega
      rw [scan_skip content d hd i k hi]
      simp only []
      rw [List.drop_eq_getElem_cons hq']
      by_cases hesc : isBackslashEscaped (content.take (k+i)) = true
      · rw [if_pos hesc, ih (k+i+1) (by omega) (by omega), take_succ_of_lt content (k+i) hq']
        rw [scan_cons, esc_snoc]
        simp [hq, hd, hesc]
      · rw [if_neg hesc]
        have hesc' : isBackslashEscaped (content.take (k+i)) = false := by simpa using hesc
        by_cases hnext : content[k+i+1]? = some d
        · have hn2 : k + i + 1 < content.length := by
            rcases Nat.lt_or_ge (k+i+1) content.length with h' | h'
            · exact h'
            · simp [List.getElem?_eq_none h'] at hnext
          have hd2 : content[k+i+1] = d := by
            simpa [List.getElem?_eq_getElem hn2] using hnext
          rw [if_pos hnext, ih (k+i+2) (by omega) (by omega)]
          rw [List.drop_eq_getElem_cons hn2]
          have e : k + i + 2 = (k + i + 1) + 1 := by omega
          rw [e, take_succ_of_lt content (k+i+1) hn2]
          rw [scan_cons, esc_snoc]
          simp [hq, hd2, hd, hesc']
        · rw [if_neg hnext]
          rcases Nat.lt_or_ge (k+i+1) content.length with h' | h'
          · rw [List.drop_eq_getElem_cons h']
            have hne : (content[k+i+1] == d) = false := by
              simp [List.getElem?_eq_getElem h'] at hnext
              simpa using hnext
            rw [scan_cons]
            simp [hq, hesc', hne]
          · rw [scan_cons]
            simp [List.drop_eq_nil_of_le h', hq, hesc']

/-- **The closing-quote loop of `parseStringCore` computes the first-real-terminator automaton**,
with fuel `|content|+1`, and never errs — for every content and every delimiter except `\`. -/
theorem coreLoop_spec (content : Bytes) (d : UInt8) (hd : d ≠ 92) :
    coreLoop content d 0 (content.length + 1) = .ok (closingQuote content d) := by
  have := coreLoop_scan content d hd (content.length + 1) 0 (by omega) (by omega)
  simpa [closingQuote, isBackslashEscaped, trailingBs] using this

end LibInj.Sqli

namespace LibInj.Spec
open LibInj

/-- a closing quote lies inside the scanned text and is the delimiter -/
theorem scan_bounds (d : UInt8) (l : Bytes) (odd : Bool) (n q : Nat) (h : scan d l odd n = some q) :
    n ≤ q ∧ q < n + l.length := by
  fun_induction scan d l odd n <;> simp_all <;> omega

theorem closingQuote_lt (content : Bytes) (d : UInt8) (q : Nat) (h : closingQuote content d = some q) :
    q < content.length := by
  have := scan_bounds d content false 0 q h
  omega

end LibInj.Spec

namespace LibInj.Sqli
open LibInj LibInj.Spec

/-- length after clipping to `tokenSize - 1` -/
def clip (n : Nat) : Nat := if n < tokenSize then n else tokenSize - 1

theorem assign_ok (t : Token) (cat : UInt8) (pos length : Nat) (value : Bytes) (h : clip length ≤ value.length) :
    assign t cat pos length value =
      .ok { t with cat := cat, pos := pos, len := clip length, val := value.take (clip length) } := by
  unfold assign slice clip at *
  simp only [Nat.zero_le, true_and, List.drop_zero, Nat.sub_zero, bind, Except.bind, pure, Except.pure]
  split <;> simp_all

theorem clip_le (n : Nat) : clip n ≤ n := by unfold clip; split <;> omega

/-- **`parseStringCore` in terms of the first real terminator** (every literal form that goes
through it: plain, virtual, back-tick, `n'`/`e'`/`u&'` prefixed, `@'v'`): the token is the content
up to the closing quote (clipped to 31 bytes), closed iff a closing quote exists, and scanning
resumes right after it; without a closing quote the literal runs to end of input, unclosed. -/
theorem parseStringCore_spec (t : Token) (rest : Bytes) (offset : Nat) (d : UInt8) (hd : d ≠ 92)
    (ho : offset ≤ rest.length) :
    parseStringCore t rest offset d = .ok (
      let content := rest.drop offset
      let t0 := { t with strOpen := if offset > 0 then d else 0 }
      match closingQuote content d with
      | none => { tok := { t0 with cat := 115, pos := offset, len := clip (rest.length - offset),
                                   val := content.take (clip (rest.length - offset)), strClose := 0 },
                  next := rest.length }
      | some q => { tok := { t0 with cat := 115, pos := offset, len := clip q,
                                     val := content.take (clip q), strClose := d },
                    next := offset + q + 1 }) := by
  unfold parseStringCore sliceFrom
  simp only [ho, ↓reduceIte, bind, Except.bind, coreLoop_spec _ d hd]
  cases hq : closingQuote (rest.drop offset) d with
  | none =>
    simp only []
    rw [assign_ok _ _ _ _ _ (by have := clip_le (rest.length - offset); simp; omega)]
    simp [pure, Except.pure]
  | some q =>
    have hlt := closingQuote_lt _ _ _ hq
    simp only []
    rw [assign_ok _ _ _ _ _ (by have := clip_le q; omega)]
    simp [pure, Except.pure]

end LibInj.Sqli
