import LibInj.Proofs.WhitelistOK
set_option linter.unusedSimpArgs false
set_option linter.unusedVariables false
/-! Fingerprint keys of the regenerated table: shape of blacklisted keys (C08), absence of keys made
only of `N` and `1` (C14). -/
namespace LibInj.Sqli
open LibInj LibInj.Tables

set_option maxRecDepth 200000 in
theorem kw_wf : Gen.keywords.all kwOK = true := by decide +kernel

set_option maxRecDepth 200000 in
theorem kw_comment : Gen.keywords.all commentOnlyLast = true := by decide +kernel

/-- table fact: a key with class `F` is `0` followed by 1..5 upper-cased class characters, the
comment class only in last position (`kwOK`, `commentOnlyLast` of C20, restated for the matched key) -/
theorem blacklisted_key_shape (l n : Nat) (h : lookupKw l n = some 70) :
    2 ≤ l ∧ l ≤ 6 ∧ fpBytes (l - 1) n = true ∧ noByte 67 (l - 1) (n / 256) = true := by
  have hm := lookupIn_some_mem _ _ _ _ h
  have h1 := List.all_eq_true.mp kw_wf _ hm
  have h2 := List.all_eq_true.mp kw_comment _ hm
  simp only [kwOK, Bool.and_eq_true, Bool.or_eq_true, Bool.not_eq_true', Nat.ble_eq] at h1
  simp only [commentOnlyLast, Bool.or_eq_true, Bool.not_eq_true'] at h2
  have e70 : Nat.beq 70 70 = true := rfl
  obtain ⟨⟨_, hfp⟩, _⟩ := h1
  rcases hfp with hfp | hfp
  · simp [e70] at hfp
  · rcases h2 with h2 | h2
    · simp [e70] at h2
    · exact ⟨hfp.1.1, hfp.1.2, hfp.2, h2⟩

theorem keyNat_snoc (w : Bytes) (c : UInt8) : keyNat (w ++ [c]) = keyNat w * 256 + c.toNat := by
  simp [keyNat, List.foldl_append]

theorem fpBytes_keyNat_rev : ∀ (r : Bytes), fpBytes r.length (keyNat (48 :: r.reverse)) = true →
    ∀ u ∈ r, isClassUpper u.toNat = true
  | [], _, u, hu => by cases hu
  | c :: r', h, u, hu => by
    have hc : c.toNat < 256 := c.toNat_lt
    have e : (48 : UInt8) :: (c :: r').reverse = (48 :: r'.reverse) ++ [c] := by simp
    rw [e, keyNat_snoc] at h
    simp only [List.length_cons, fpBytes, Bool.and_eq_true] at h
    have e1 : (keyNat (48 :: r'.reverse) * 256 + c.toNat) % 256 = c.toNat := by omega
    have e2 : (keyNat (48 :: r'.reverse) * 256 + c.toNat) / 256 = keyNat (48 :: r'.reverse) := by omega
    rw [e1, e2] at h
    rcases List.mem_cons.mp hu with rfl | hu
    · exact h.1
    · exact fpBytes_keyNat_rev r' h.2 u hu

theorem fpBytes_keyNat (us : Bytes) (h : fpBytes us.length (keyNat (48 :: us)) = true) :
    ∀ u ∈ us, isClassUpper u.toNat = true := by
  have := fpBytes_keyNat_rev us.reverse (by simpa using h)
  intro u hu
  exact this u (by simpa using hu)

/-- a class byte (or 0) whose upper-case image is an upper-cased class character is a class byte -/
theorem class_of_upper (c : UInt8) (h : c = 0 ∨ isClassU8 c = true) (hu : isClassUpper (upperAscii c).toNat = true) :
    isClassU8 c = true := by
  have := forall_byte (fun c => !((c == 0 || isClassU8 c) && isClassUpper (upperAscii c).toNat) || isClassU8 c)
    (by decide +kernel) c
  have hc : (c == 0 || isClassU8 c) = true := by
    rcases h with h | h <;> simp [h]
  simpa [hc, hu] using this

/-- **a blacklisted fingerprint over class-or-0 bytes has 1..5 bytes, all class characters** -/
theorem blacklisted_alphabet (fp : Bytes) (hcls : ∀ c ∈ fp, c = 0 ∨ isClassU8 c = true)
    (hb : searchKeyword (fpKey fp) = 70) :
    1 ≤ fp.length ∧ fp.length ≤ 5 ∧ ∀ c ∈ fp, isClassU8 c = true := by
  have hg : goUpper (fpKey fp) = 48 :: fp.map upperAscii := by
    unfold fpKey
    rw [goUpper_plain]
    · simp only [List.map_cons, List.map_map]
      congr 1
      apply List.map_congr_left
      intro c hc
      exact (class_upper c (hcls c hc)).2.2
    · intro x hx
      rcases List.mem_cons.mp hx with rfl | hx
      · decide
      · obtain ⟨c, hc, rfl⟩ := List.mem_map.mp hx
        exact ⟨(class_upper c (hcls c hc)).1, (class_upper c (hcls c hc)).2.1⟩
  rw [searchKeyword_eq] at hb; unfold searchKeywordSpec at hb
  simp only [hg] at hb
  cases hl : lookupKw ((48 : UInt8) :: fp.map upperAscii).length (keyNat (48 :: fp.map upperAscii)) with
  | none => rw [hl] at hb; simp at hb
  | some v =>
    rw [hl] at hb
    simp only [] at hb
    have hm := lookupIn_some_mem _ _ _ _ hl
    have hv := List.all_eq_true.mp keywords_valOK _ hm
    simp only [valOK, Bool.and_eq_true, Nat.blt_eq] at hv
    have hv128 : v < 128 := hv.1.1.1
    have hv70 : v = 70 := by
      have := congrArg UInt8.toNat hb
      simp at this
      omega
    subst hv70
    obtain ⟨k1, k2, k3, _⟩ := blacklisted_key_shape _ _ hl
    simp only [List.length_cons, List.length_map] at k1 k2 k3
    refine ⟨by omega, by omega, ?_⟩
    have hk : fpBytes (fp.map upperAscii).length (keyNat (48 :: fp.map upperAscii)) = true := by
      simpa using k3
    intro c hc
    exact class_of_upper c (hcls c hc) (fpBytes_keyNat _ hk (upperAscii c) (List.mem_map.mpr ⟨c, hc, rfl⟩))

/-- the low `k` bytes of `n` are all `N` (78), `1` (49), `V` (86), `,` (44), `?` (63) or `:` (58) and what remains is
`0` (48): `n` is the key `"0" ++ upper f` of a fingerprint over these six classes -/
def n1Key : Nat → Nat → Bool
  | 0, n => Nat.beq n 48
  | k+1, n => (Nat.beq (n % 256) 78 || Nat.beq (n % 256) 49 || Nat.beq (n % 256) 86 || Nat.beq (n % 256) 44 ||
      Nat.beq (n % 256) 63 || Nat.beq (n % 256) 58) && n1Key k (n / 256)

/-- an entry that would make a `{n,1,v}` fingerprint blacklisted -/
def badEntry (e : Entry) : Bool := Nat.beq e.2.2 70 && Nat.ble 2 e.1 && n1Key (e.1 - 1) e.2.1

set_option maxRecDepth 200000 in
/-- no key of the regenerated table is `0` followed only by `N`/`1`/`V` with class `F` -/
theorem benign_fingerprints_absent_table : (Gen.keywords.all fun e => !badEntry e) = true := by
  decide +kernel


theorem n1Key_keyNat_rev : ∀ (r : Bytes), (∀ u ∈ r, u = 78 ∨ u = 49 ∨ u = 86 ∨ u = 44 ∨ u = 63 ∨ u = 58) → n1Key r.length (keyNat (48 :: r.reverse)) = true
  | [], _ => by decide
  | c :: r', h => by
    have hc : c.toNat < 256 := c.toNat_lt
    have e : (48 : UInt8) :: (c :: r').reverse = (48 :: r'.reverse) ++ [c] := by simp
    rw [e, keyNat_snoc]
    simp only [List.length_cons, n1Key]
    have e1 : (keyNat (48 :: r'.reverse) * 256 + c.toNat) % 256 = c.toNat := by omega
    have e2 : (keyNat (48 :: r'.reverse) * 256 + c.toNat) / 256 = keyNat (48 :: r'.reverse) := by omega
    rw [e1, e2, n1Key_keyNat_rev r' (fun u hu => h u (List.mem_cons_of_mem _ hu))]
    rcases h c List.mem_cons_self with rfl | rfl | rfl | rfl | rfl | rfl <;> rfl

theorem n1Key_keyNat (us : Bytes) (h : ∀ u ∈ us, u = 78 ∨ u = 49 ∨ u = 86 ∨ u = 44 ∨ u = 63 ∨ u = 58) : n1Key us.length (keyNat (48 :: us)) = true := by
  have := n1Key_keyNat_rev us.reverse (fun u hu => h u (by simpa using hu))
  simpa using this

/-- what a successful blacklist look-up of a fingerprint over class-or-0 bytes means in the table -/
theorem fp_lookup (fp : Bytes) (hcls : ∀ c ∈ fp, c = 0 ∨ isClassU8 c = true) (hb : searchKeyword (fpKey fp) = 70) :
    lookupKw (fp.length + 1) (keyNat (48 :: fp.map upperAscii)) = some 70 := by
  have hg : goUpper (fpKey fp) = 48 :: fp.map upperAscii := by
    unfold fpKey
    rw [goUpper_plain]
    · simp only [List.map_cons, List.map_map]
      congr 1
      apply List.map_congr_left
      intro c hc
      exact (class_upper c (hcls c hc)).2.2
    · intro x hx
      rcases List.mem_cons.mp hx with rfl | hx
      · decide
      · obtain ⟨c, hc, rfl⟩ := List.mem_map.mp hx
        exact ⟨(class_upper c (hcls c hc)).1, (class_upper c (hcls c hc)).2.1⟩
  rw [searchKeyword_eq] at hb; unfold searchKeywordSpec at hb
  simp only [hg] at hb
  cases hl : lookupKw ((48 : UInt8) :: fp.map upperAscii).length (keyNat (48 :: fp.map upperAscii)) with
  | none => rw [hl] at hb; simp at hb
  | some v =>
    rw [hl] at hb
    simp only [] at hb
    have hm := lookupIn_some_mem _ _ _ _ hl
    have hv := List.all_eq_true.mp keywords_valOK _ hm
    simp only [valOK, Bool.and_eq_true, Nat.blt_eq] at hv
    have hv128 : v < 128 := hv.1.1.1
    have hv70 : v = 70 := by
      have := congrArg UInt8.toNat hb
      simp at this
      omega
    subst hv70
    simpa using hl

/-- **a fingerprint made of empty slots, numbers, barewords and variables is never blacklisted** -/
theorem n1_not_blacklisted (fp : Bytes) (h : ∀ c ∈ fp, c = 0 ∨ c = 49 ∨ c = 110 ∨ c = 118 ∨ c = 44 ∨ c = 63 ∨ c = 58) :
    searchKeyword (fpKey fp) ≠ 70 := by
  intro hb
  have hcls : ∀ c ∈ fp, c = 0 ∨ isClassU8 c = true := by
    intro c hc
    rcases h c hc with e | e | e | e | e | e | e
    · exact Or.inl e
    all_goals (right; rw [e]; decide)
  obtain ⟨h1, h5, hall⟩ := blacklisted_alphabet fp hcls hb
  have hl := fp_lookup fp hcls hb
  have hm := lookupIn_some_mem _ _ _ _ hl
  have hbad := List.all_eq_true.mp benign_fingerprints_absent_table _ hm
  have hus : ∀ u ∈ fp.map upperAscii, u = 78 ∨ u = 49 ∨ u = 86 ∨ u = 44 ∨ u = 63 ∨ u = 58 := by
    intro u hu
    obtain ⟨c, hc, rfl⟩ := List.mem_map.mp hu
    rcases h c hc with e | e | e | e | e | e | e
    · have := hall c hc; rw [e] at this; exact absurd this (by decide)
    · right; left; rw [e]; decide
    · left; rw [e]; decide
    · right; right; left; rw [e]; decide
    · right; right; right; left; rw [e]; decide
    · right; right; right; right; left; rw [e]; decide
    · right; right; right; right; right; rw [e]; decide
  have hk := n1Key_keyNat (fp.map upperAscii) hus
  simp only [List.length_map] at hk
  have h2 : Nat.ble 2 (fp.length + 1) = true := by simp only [Nat.ble_eq]; omega
  simp [badEntry, hk, h2] at hbad

end LibInj.Sqli
