import LibInj.Proofs.BenignLex
set_option linter.unusedSimpArgs false
set_option linter.unusedVariables false
/-! the exponent branch of `parseNumber`: `digits e [+-] digits` is lexed as one number -/
namespace LibInj.Sqli
open LibInj LibInj.Spec

/-- an unsigned integer with an exponent: `m e x`, `m e+x`, `m e-x` (either case of `e`) -/
def GoodSci (w : Bytes) : Prop :=
  ∃ m x : Bytes, ∃ e : UInt8, ∃ s : Bytes, w = m ++ e :: (s ++ x) ∧ GoodNum m ∧ GoodNum x ∧ (e = 69 ∨ e = 101) ∧
    (s = [] ∨ s = [43] ∨ s = [45])

theorem e_facts (e : UInt8) (h : e = 69 ∨ e = 101) : isDigit e = false ∧ e ≠ 46 ∧ e ≠ 88 ∧ e ≠ 120 ∧ e ≠ 66 ∧ e ≠ 98 := by
  rcases h with rfl | rfl <;> decide

theorem get_app (m l : Bytes) (i : Nat) : (m ++ l)[m.length + i]? = l[i]? := by
  rw [List.getElem?_append_right (by omega)]; congr 1; omega

theorem sliceFrom_app (m l : Bytes) (k : Nat) (hk : k ≤ l.length) : sliceFrom (m ++ l) (m.length + k) = .ok (l.drop k) := by
  unfold sliceFrom
  have : m.length + k ≤ (m ++ l).length := by simp; omega
  simp only [this, ↓reduceIte]
  rw [← List.drop_drop, List.drop_left]

theorem spn_digits_sepN (x r : Bytes) (hallx : x.all isDigit = true) (hr : SepN r) : spn isDigit (x ++ r) = x.length := by
  rcases hr with rfl | ⟨d, r', rfl, hd⟩
  · simp [spn_all isDigit x hallx]
  · exact spn_append_stop isDigit x d r' hallx (numSep_facts d hd).1

/-- the exponent stage on `m e s x r` -/
theorem numExp_sci (m x r : Bytes) (e : UInt8) (s : Bytes) (he : e = 69 ∨ e = 101) (hs : s = [] ∨ s = [43] ∨ s = [45])
    (hnex : x ≠ []) (hallx : x.all isDigit = true) (hr : SepN r) :
    numExp (m ++ e :: (s ++ (x ++ r))) m.length = .ok (m.length + 1 + s.length + x.length, true, true) := by
  obtain ⟨x0, xt, rfl⟩ := List.exists_cons_of_ne_nil hnex
  have hx0 : isDigit x0 = true := by simp only [List.all_cons, Bool.and_eq_true] at hallx; exact hallx.1
  have hx0s : (x0 == 43 || x0 == 45) = false := by
    have : x0 ≠ 43 ∧ x0 ≠ 45 := by
      constructor <;> (intro h; rw [h] at hx0; revert hx0; decide)
    rw [beq_eq_false_iff_ne.mpr this.1, beq_eq_false_iff_ne.mpr this.2]; rfl
  have hspn := spn_digits_sepN (x0 :: xt) r hallx hr
  have hk : ((x0 :: xt).length != 0) = true := by simp
  unfold numExp
  have hlt : m.length < (m ++ e :: (s ++ (x0 :: xt ++ r))).length := by simp
  have hge : (m ++ e :: (s ++ (x0 :: xt ++ r)))[m.length]? = some e := by
    have := get_app m (e :: (s ++ (x0 :: xt ++ r))) 0
    simpa using this
  have hat0 : at' (m ++ e :: (s ++ (x0 :: xt ++ r))) m.length = .ok e := by unfold at'; rw [hge]
  have ee : (e == 69 || e == 101) = true := by rcases he with rfl | rfl <;> rfl
  simp only [hlt, ↓reduceIte, hat0, bind, Except.bind, pure, Except.pure, ee]
  have hlt1 : m.length + 1 < (m ++ e :: (s ++ (x0 :: xt ++ r))).length := by simp; omega
  simp only [hlt1, ↓reduceIte]
  rcases hs with rfl | rfl | rfl
  · have hg1 : (m ++ e :: ([] ++ (x0 :: xt ++ r)))[m.length + 1]? = some x0 := by
      have := get_app m (e :: ([] ++ (x0 :: xt ++ r))) 1
      simpa using this
    have hat1 : at' (m ++ e :: ([] ++ (x0 :: xt ++ r))) (m.length + 1) = .ok x0 := by unfold at'; rw [hg1]
    simp only [hat1, hx0s, Bool.false_eq_true, ↓reduceIte]
    have hsl := sliceFrom_app m (e :: ([] ++ (x0 :: xt ++ r))) 1 (by simp)
    simp only [List.drop_succ_cons, List.drop_zero, List.nil_append] at hsl
    simp only [List.nil_append] at hsl ⊢
    rw [hsl]
    simp only [hspn, hk, List.length_nil, Nat.add_zero]
  · have hg1 : (m ++ e :: ([43] ++ (x0 :: xt ++ r)))[m.length + 1]? = some 43 := by
      have := get_app m (e :: ([43] ++ (x0 :: xt ++ r))) 1
      simpa using this
    have hat1 : at' (m ++ e :: ([43] ++ (x0 :: xt ++ r))) (m.length + 1) = .ok 43 := by unfold at'; rw [hg1]
    simp only [hat1, show ((43 : UInt8) == 43 || (43 : UInt8) == 45) = true from rfl, ↓reduceIte]
    have hsl := sliceFrom_app m (e :: ([43] ++ (x0 :: xt ++ r))) 2 (by simp)
    simp only [List.drop_succ_cons, List.drop_zero, List.singleton_append] at hsl
    rw [show m.length + 1 + 1 = m.length + 2 by omega]
    simp only [List.singleton_append] at hsl ⊢
    rw [hsl]
    simp only [hspn, hk, List.length_cons, List.length_nil]
    congr 2
  · have hg1 : (m ++ e :: ([45] ++ (x0 :: xt ++ r)))[m.length + 1]? = some 45 := by
      have := get_app m (e :: ([45] ++ (x0 :: xt ++ r))) 1
      simpa using this
    have hat1 : at' (m ++ e :: ([45] ++ (x0 :: xt ++ r))) (m.length + 1) = .ok 45 := by unfold at'; rw [hg1]
    simp only [hat1, show ((45 : UInt8) == 43 || (45 : UInt8) == 45) = true from rfl, ↓reduceIte]
    have hsl := sliceFrom_app m (e :: ([45] ++ (x0 :: xt ++ r))) 2 (by simp)
    simp only [List.drop_succ_cons, List.drop_zero, List.singleton_append] at hsl
    rw [show m.length + 1 + 1 = m.length + 2 by omega]
    simp only [List.singleton_append] at hsl ⊢
    rw [hsl]
    simp only [hspn, hk, List.length_cons, List.length_nil]
    congr 2

/-- **an integer with an exponent is lexed as one number** spanning exactly its text -/
theorem parseNumber_sci (w r : Bytes) (hw : GoodSci w) (hr : SepN r) :
    parseNumber (w ++ r) = .ok { tok := { cat := 49, pos := 0, len := clip w.length, val := w.take (clip w.length) },
                                 next := w.length } := by
  obtain ⟨m, x, e, s, hwe, ⟨hnem, hallm⟩, ⟨hnex, hallx⟩, he, hs⟩ := hw
  have hlm : 1 ≤ m.length := length_pos_of_ne_nil hnem
  have hlx : 1 ≤ x.length := length_pos_of_ne_nil hnex
  have hwl : w.length = m.length + 1 + s.length + x.length := by rw [hwe]; simp; omega
  have hef := e_facts e he
  generalize hR : w ++ r = R
  have hRd : R = m ++ (e :: (s ++ (x ++ r))) := by rw [← hR, hwe]; simp
  have hRl : R.length = w.length + r.length := by rw [← hR]; simp
  have hl0 : 0 < R.length := by omega
  have hspn : spn isDigit R = m.length := by
    rw [hRd]; exact spn_append_stop isDigit m e _ hallm hef.1
  have hget : ∀ i, R[m.length + i]? = (e :: (s ++ (x ++ r)))[i]? := by
    intro i; rw [hRd, List.getElem?_append_right (by omega)]; congr 1; omega
  have hafter : ∀ y, R[w.length]? = some y → isNumSep y = true := by
    intro y hy
    rw [← hR, List.getElem?_append_right (Nat.le_refl _), Nat.sub_self] at hy
    rcases hr with rfl | ⟨d, r', rfl, hd⟩
    · simp at hy
    · have : y = d := by simpa using hy.symm
      exact this ▸ hd
  have hlte : m.length < R.length := by omega
  have hRe : R[m.length] = e := by
    have := hget 0
    rw [Nat.add_zero, getElem_of _ _ hlte] at this
    simpa using this
  unfold parseNumber
  simp only [at'_ok hl0, bind, Except.bind, pure, Except.pure]
  have hds : numDigitSet R R[0] = .ok none := by
    unfold numDigitSet
    by_cases hc : (R[0] == 48 && decide (1 < R.length)) = true
    · have h1 : 1 < R.length := by simp only [Bool.and_eq_true, decide_eq_true_eq] at hc; exact hc.2
      simp only [hc, ↓reduceIte, at'_ok h1, bind, Except.bind, pure, Except.pure]
      have hx : R[1] ≠ 88 ∧ R[1] ≠ 120 ∧ R[1] ≠ 66 ∧ R[1] ≠ 98 := by
        rcases Nat.lt_or_ge 1 m.length with hl | hg
        · have hm : R[1] ∈ m := by
            have := List.getElem?_append_left (l₂ := e :: (s ++ (x ++ r))) hl
            rw [← hRd, getElem_of _ 1 h1] at this
            exact List.mem_of_getElem? this.symm
          have := digit_facts _ (List.all_eq_true.mp hallm _ hm)
          exact ⟨this.1, this.2.1, this.2.2.1, this.2.2.2.1⟩
        · have e1 : m.length = 1 := by omega
          have h1e : R[1] = e := by
            have := hRe
            simp only [e1] at this
            exact this
          rw [h1e]; exact ⟨hef.2.2.1, hef.2.2.2.1, hef.2.2.2.2.1, hef.2.2.2.2.2⟩
      have e1 : (R[1] == 88 || R[1] == 120) = false := by
        rw [beq_eq_false_iff_ne.mpr hx.1, beq_eq_false_iff_ne.mpr hx.2.1]; rfl
      have e2 : (R[1] == 66 || R[1] == 98) = false := by
        rw [beq_eq_false_iff_ne.mpr hx.2.2.1, beq_eq_false_iff_ne.mpr hx.2.2.2]; rfl
      simp only [e1, e2, Bool.false_eq_true, ↓reduceIte]
    · simp only [hc, Bool.false_eq_true, ↓reduceIte, pure, Except.pure]
  simp only [hds, hspn]
  have hdot : numDot R m.length = .ok (m.length, false) := by
    unfold numDot
    simp only [g, andM, toBool, byteIs, bind, Except.bind, pure, Except.pure]
    have e46 : (R[m.length] == 46) = false := by rw [hRe]; exact beq_eq_false_iff_ne.mpr hef.2.1
    simp only [hlte, decide_true, ↓reduceIte, at'_ok hlte, e46, Bool.false_eq_true]
  have hexp : numExp R m.length = .ok (w.length, true, true) := by
    rw [hRd, hwl]
    exact numExp_sci m x r e s he hs hnex hallx hr
  have hsuf : numSuffix R w.length = .ok w.length := by
    unfold numSuffix
    simp only [bind, Except.bind, pure, Except.pure]
    by_cases hlt : w.length < R.length
    · have := numSep_facts _ (hafter _ (getElem_of _ _ hlt))
      have e4 : (R[w.length] == 100 || R[w.length] == 68 || R[w.length] == 102 || R[w.length] == 70) = false := by
        rw [beq_eq_false_iff_ne.mpr this.2.2.2.2.2.2.2.2.1, beq_eq_false_iff_ne.mpr this.2.2.2.2.2.2.2.2.2.1,
          beq_eq_false_iff_ne.mpr this.2.2.2.2.2.2.2.2.2.2.1, beq_eq_false_iff_ne.mpr this.2.2.2.2.2.2.2.2.2.2.2]; rfl
      simp only [hlt, ↓reduceIte, at'_ok hlt, e4, Bool.false_eq_true]
    · simp only [hlt, ↓reduceIte]
  simp only [hdot, Bool.false_eq_true, ↓reduceIte, hexp, hsuf, Bool.true_and, Bool.not_true]
  have hcl := clip_le w.length
  rw [assign_ok _ _ _ _ _ (by omega)]
  simp only []
  rw [← hR, List.take_append_of_le_length (by omega)]
end LibInj.Sqli
