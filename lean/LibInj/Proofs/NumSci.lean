import LibInj.Proofs.BenignLex
/-! The exponent branch of `parseNumber` (`GoodSci`, `numExp_sci`, `parseNumber_sci`) lives in `Proofs/BenignLex` next to the
integer and decimal branches, because the benign grammar `Txt` uses it; this module keeps the import name used by
`Properties/C06`. -/
