import LibInj.Proofs.Tables
import LibInj.Proofs.Case
set_option linter.unusedSimpArgs false
/-! What a keyword look-up can return: nothing, or a documented class; the class `f` only for keys of
at least two bytes. From the regenerated table (kernel-checked on every build). -/
namespace LibInj.Sqli
open LibInj LibInj.Tables

def classBytes : Bytes := [107, 85, 66, 69, 116, 102, 110, 49, 118, 115, 111, 38, 99, 65, 40, 41, 123, 125, 46, 44, 58, 59, 84, 63, 88, 70, 92]
def isClassU8 (c : UInt8) : Bool := classBytes.contains c

def valOK (e : Entry) : Bool :=
  Nat.blt e.2.2 128 && isClass e.2.2 && (!(Nat.beq e.2.2 102) || Nat.ble 2 e.1) && Nat.ble 1 e.1

set_option maxRecDepth 200000 in
theorem keywords_valOK : Gen.keywords.all valOK = true := by decide +kernel

theorem class_bridge : (List.range 128).all (fun v => !isClass v || isClassU8 v.toUInt8) = true := by decide +kernel

theorem searchKeyword_cases (w : Bytes) :
    searchKeyword w = 0 ∨ (isClassU8 (searchKeyword w) = true ∧ (searchKeyword w = 102 → 2 ≤ w.length) ∧ 1 ≤ w.length) := by
  rw [searchKeyword_eq]; unfold searchKeywordSpec
  simp only []
  cases hl : lookupKw (goUpper w).length (keyNat (goUpper w)) with
  | none => left; rfl
  | some v =>
    right
    simp only []
    have hm := lookupIn_some_mem _ _ _ _ hl
    have hv := List.all_eq_true.mp keywords_valOK _ hm
    simp only [valOK, Bool.and_eq_true, Nat.blt_eq, Bool.or_eq_true, Bool.not_eq_true', Nat.ble_eq] at hv
    obtain ⟨⟨⟨hv128, hcls⟩, hf⟩, hlen⟩ := hv
    have hgl := goUpper_length_le _ w (Nat.le_refl _)
    have hb := List.all_eq_true.mp class_bridge v (List.mem_range.mpr hv128)
    simp only [hcls, Bool.not_true, Bool.false_or] at hb
    refine ⟨hb, ?_, by omega⟩
    intro h102
    have hv102 : v = 102 := by
      have : (v.toUInt8).toNat = 102 := by rw [h102]; rfl
      simp at this
      omega
    rcases hf with hf | hf
    · rw [hv102] at hf; simp at hf
    · omega

end LibInj.Sqli
