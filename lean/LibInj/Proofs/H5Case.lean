import LibInj.Proofs.H5Good
import LibInj.Proofs.Case
set_option linter.unusedSimpArgs false
set_option linter.unusedVariables false
/-! C11: the HTML5 tokenizer commutes with ASCII lower-casing of its input (the only case-sensitive
marker is `[CDATA[`). -/
namespace LibInj.H5
open LibInj

abbrev L (s : Bytes) : Bytes := s.map lowerAscii

/-- the same tokenizer state over the lower-cased input -/
def lowerH (h : H) : H := { h with s := L h.s }

def mapR (r : M (Bool × H)) : M (Bool × H) := r.map (fun p => (p.1, lowerH p.2))

/-- a byte that no letter lower-cases to -/
def NonLetter (k : UInt8) : Prop := ∀ x, (lowerAscii x == k) = (x == k)

theorem nonLetter_of (k : UInt8) (h : (isLowerAscii k || isUpperAscii k) = false) : NonLetter k := by
  intro x
  by_cases hx : isUpperAscii x = true
  · -- x upper: lower x = x + 32 is a lower-case letter ≠ k, and x ≠ k
    have h1 : lowerAscii x ≠ k := by
      intro e
      have := forall_byte (fun x => !isUpperAscii x || isLowerAscii (lowerAscii x)) (by decide +kernel) x
      simp only [hx, Bool.not_true, Bool.false_or] at this
      rw [e] at this
      rw [this] at h
      simp at h
    have h2 : x ≠ k := by
      intro e; rw [e] at hx; rw [hx] at h; simp at h
    have e1 : (lowerAscii x == k) = false := by simpa using h1
    have e2 : (x == k) = false := by simpa using h2
    rw [e1, e2]
  · have : lowerAscii x = x := by unfold lowerAscii; simp [hx]
    rw [this]

theorem L_length (s : Bytes) : (L s).length = s.length := by simp [L]
theorem L_drop (s : Bytes) (p : Nat) : (L s).drop p = L (s.drop p) := by simp [L, List.map_drop]
theorem L_take (s : Bytes) (p : Nat) : (L s).take p = L (s.take p) := by simp [L, List.map_take]
theorem L_get (s : Bytes) (i : Nat) : (L s)[i]? = (s[i]?).map lowerAscii := by simp [L]

theorem indexByte_L (k : UInt8) (hk : NonLetter k) : ∀ (s : Bytes), indexByte (L s) k = indexByte s k
  | [] => rfl
  | x :: xs => by
    simp only [L, List.map_cons, indexByte, hk x]
    rw [show xs.map lowerAscii = L xs from rfl, indexByte_L k hk xs]

theorem spn_L (p : UInt8 → Bool) (hp : ∀ x, p (lowerAscii x) = p x) : ∀ (s : Bytes), spn p (L s) = spn p s
  | [] => rfl
  | x :: xs => by
    simp only [L, List.map_cons, spn, hp x]
    rw [show xs.map lowerAscii = L xs from rfl, spn_L p hp xs]

theorem offFrom_L (s : Bytes) (i : Nat) : offFrom (L s) i = offFrom s i := by simp [offFrom, L_length]

theorem at'_L (s : Bytes) (i : Nat) : at' (L s) i = (at' s i).map lowerAscii := by
  unfold at'
  rw [L_get]
  cases s[i]? <;> rfl

-- predicates of the scanner are case-blind
theorem p_tagName (x : UInt8) : tagNameByte (lowerAscii x) = tagNameByte x := by
  have := forall_byte (fun x => tagNameByte (lowerAscii x) == tagNameByte x) (by decide +kernel) x; simpa using this
theorem p_attrName (x : UInt8) : attrNameByte (lowerAscii x) = attrNameByte x := by
  have := forall_byte (fun x => attrNameByte (lowerAscii x) == attrNameByte x) (by decide +kernel) x; simpa using this
theorem p_noQuote (x : UInt8) : noQuoteByte (lowerAscii x) = noQuoteByte x := by
  have := forall_byte (fun x => noQuoteByte (lowerAscii x) == noQuoteByte x) (by decide +kernel) x; simpa using this
theorem p_skipWhite (x : UInt8) : isSkipWhite (lowerAscii x) = isSkipWhite x := by
  have := forall_byte (fun x => isSkipWhite (lowerAscii x) == isSkipWhite x) (by decide +kernel) x; simpa using this
theorem p_isNul (x : UInt8) : isNul (lowerAscii x) = isNul x := by
  have := forall_byte (fun x => isNul (lowerAscii x) == isNul x) (by decide +kernel) x; simpa using this
theorem p_h5White (x : UInt8) : isH5White (lowerAscii x) = isH5White x := by
  have := forall_byte (fun x => isH5White (lowerAscii x) == isH5White x) (by decide +kernel) x; simpa using this
theorem p_alpha (x : UInt8) : isAlpha (lowerAscii x) = isAlpha x := by
  have := forall_byte (fun x => isAlpha (lowerAscii x) == isAlpha x) (by decide +kernel) x; simpa using this

theorem nl (k : UInt8) (h : (isLowerAscii k || isUpperAscii k) = false) (x : UInt8) : (lowerAscii x == k) = (x == k) :=
  nonLetter_of k h x
theorem nl_ne (k : UInt8) (h : (isLowerAscii k || isUpperAscii k) = false) (x : UInt8) : (lowerAscii x != k) = (x != k) := by
  simp only [bne, nl k h x]

theorem lowerH_s (h : H) : (lowerH h).s = L h.s := rfl
theorem lowerH_pos (h : H) : (lowerH h).pos = h.pos := rfl

/-- `<! .. >`, `<? .. >`: bogus comment -/
theorem stateBogusComment_L (h : H) : stateBogusComment (lowerH h) = mapR (stateBogusComment h) := by
  unfold stateBogusComment mapR
  simp only [lowerH_s, lowerH_pos, offFrom_L, L_drop, indexByte_L 62 (nonLetter_of 62 (by decide)), L_length]
  cases offFrom h.s h.pos with
  | error e => rfl
  | ok v =>
    simp only [bind, Except.bind, pure, Except.pure]
    cases indexByte (h.s.drop h.pos) 62 <;> rfl

theorem lowerH_emit (h : H) (a b : Nat) (ty : Ty) (p : Nat) (st : St) : emit (lowerH h) a b ty p st = lowerH (emit h a b ty p st) := rfl

theorem bogus2Loop_L (h : H) : ∀ (fuel pos : Nat), bogus2Loop (lowerH h) pos fuel = mapR (bogus2Loop h pos fuel) := by
  intro fuel
  induction fuel with
  | zero => intro pos; rfl
  | succ fuel ih =>
    intro pos
    unfold bogus2Loop
    simp only [lowerH_s, lowerH_pos, offFrom_L, L_drop, indexByte_L 37 (nonLetter_of 37 (by decide)), L_length, at'_L]
    cases offFrom h.s pos with
    | error e => rfl
    | ok v =>
      simp only [bind, Except.bind, pure, Except.pure]
      cases indexByte (h.s.drop pos) 37 with
      | none =>
        simp only []
        cases offFrom h.s h.pos <;> rfl
      | some index =>
        simp only []
        split
        · cases offFrom h.s h.pos <;> rfl
        · cases hc : at' h.s (pos + index + 1) with
          | error e => rfl
          | ok c =>
            simp only [Except.map, nl_ne 62 (by decide)]
            split
            · exact ih _
            · cases offFrom h.s h.pos <;> rfl

theorem stateBogusComment2_L (h : H) : stateBogusComment2 (lowerH h) = mapR (stateBogusComment2 h) := by
  unfold stateBogusComment2
  rw [lowerH_s, L_length]; exact bogus2Loop_L h _ _

theorem stateDoctype_L (h : H) : stateDoctype (lowerH h) = mapR (stateDoctype h) := by
  unfold stateDoctype mapR
  simp only [lowerH_s, lowerH_pos, offFrom_L, L_drop, indexByte_L 62 (nonLetter_of 62 (by decide)), L_length]
  cases offFrom h.s h.pos with
  | error e => rfl
  | ok v =>
    simp only [bind, Except.bind, pure, Except.pure]
    cases indexByte (h.s.drop h.pos) 62 <;> rfl

theorem stateTagNameClose_L (h : H) : stateTagNameClose (lowerH h) = mapR (stateTagNameClose h) := by
  unfold stateTagNameClose mapR
  simp only [lowerH_s, lowerH_pos, offFrom_L, L_length]
  cases offFrom h.s h.pos <;> rfl

theorem commentLoop_L (h : H) : ∀ (fuel pos : Nat), commentLoop (lowerH h) pos fuel = mapR (commentLoop h pos fuel) := by
  intro fuel
  induction fuel with
  | zero => intro pos; rfl
  | succ fuel ih =>
    intro pos
    unfold commentLoop
    simp only [lowerH_s, lowerH_pos, offFrom_L, L_drop, indexByte_L 45 (nonLetter_of 45 (by decide)), L_length, at'_L,
      spn_L isNul p_isNul]
    cases offFrom h.s pos with
    | error e => rfl
    | ok v =>
      simp only [bind, Except.bind, pure, Except.pure]
      cases indexByte (h.s.drop pos) 45 with
      | none => simp only []; cases offFrom h.s h.pos <;> rfl
      | some index =>
        simp only []
        split
        · cases offFrom h.s h.pos <;> rfl
        · split
          · cases offFrom h.s h.pos <;> rfl
          · cases hc : at' h.s (pos + index + (1 + spn isNul (h.s.drop (pos + index + 1)))) with
            | error e => rfl
            | ok c =>
              simp only [Except.map, nl_ne 45 (by decide), nl_ne 33 (by decide)]
              split
              · exact ih _
              · split
                · cases offFrom h.s h.pos <;> rfl
                · cases hc2 : at' h.s (pos + index + (1 + spn isNul (h.s.drop (pos + index + 1)) + 1)) with
                  | error e => rfl
                  | ok c2 =>
                    simp only [Except.map, nl_ne 62 (by decide)]
                    split
                    · exact ih _
                    · cases offFrom h.s h.pos <;> rfl

theorem stateComment_L (h : H) : stateComment (lowerH h) = mapR (stateComment h) := by
  unfold stateComment
  rw [lowerH_s, L_length]; exact commentLoop_L h _ _

theorem cdataLoop_L (h : H) : ∀ (fuel pos : Nat), cdataLoop (lowerH h) pos fuel = mapR (cdataLoop h pos fuel) := by
  intro fuel
  induction fuel with
  | zero => intro pos; rfl
  | succ fuel ih =>
    intro pos
    unfold cdataLoop
    simp only [lowerH_s, lowerH_pos, offFrom_L, L_drop, indexByte_L 93 (nonLetter_of 93 (by decide)), L_length, at'_L]
    cases offFrom h.s pos with
    | error e => rfl
    | ok v =>
      simp only [bind, Except.bind, pure, Except.pure]
      cases indexByte (h.s.drop pos) 93 with
      | none => simp only []; cases offFrom h.s h.pos <;> rfl
      | some index =>
        simp only []
        split
        · cases offFrom h.s h.pos <;> rfl
        · cases hc : at' h.s (pos + index + 1) with
          | error e => rfl
          | ok c =>
            simp only [Except.map, nl 93 (by decide)]
            by_cases h93 : (c == 93) = true
            · simp only [h93, ↓reduceIte]
              cases hc2 : at' h.s (pos + index + 2) with
              | error e => rfl
              | ok c2 =>
                simp only [Except.map, nl 62 (by decide)]
                split
                · cases offFrom h.s h.pos <;> rfl
                · exact ih _
            · simp only [h93, Bool.false_eq_true, ↓reduceIte]
              exact ih _

theorem stateCData_L (h : H) : stateCData (lowerH h) = mapR (stateCData h) := by
  unfold stateCData
  rw [lowerH_s, L_length]; exact cdataLoop_L h _ _

theorem stateTagName_L (h : H) : stateTagName (lowerH h) = mapR (stateTagName h) := by
  unfold stateTagName mapR
  simp only [lowerH_s, lowerH_pos, offFrom_L, L_drop, spn_L tagNameByte p_tagName, L_length, L_get]
  cases offFrom h.s h.pos with
  | error e => rfl
  | ok v =>
    simp only [bind, Except.bind, pure, Except.pure]
    cases h.s[h.pos + spn tagNameByte (h.s.drop h.pos)]? with
    | none => rfl
    | some ch =>
      simp only [Option.map_some, p_h5White, nl 47 (by decide)]
      split
      · rfl
      · split
        · rfl
        · show (if (lowerH h).isClose = true then _ else _) = _
          have : (lowerH h).isClose = h.isClose := rfl
          rw [this]
          split <;> rfl

theorem stateAttributeName_L (h : H) : stateAttributeName (lowerH h) = mapR (stateAttributeName h) := by
  unfold stateAttributeName mapR
  simp only [lowerH_s, lowerH_pos, offFrom_L, L_drop, spn_L attrNameByte p_attrName, L_length, L_get]
  cases offFrom h.s h.pos with
  | error e => rfl
  | ok v =>
    simp only [bind, Except.bind, pure, Except.pure]
    cases h.s[h.pos + 1 + spn attrNameByte (h.s.drop (h.pos + 1))]? with
    | none => rfl
    | some ch =>
      simp only [Option.map_some, p_h5White, nl 47 (by decide), nl 61 (by decide)]
      split
      · rfl
      · split
        · rfl
        · split <;> rfl

theorem stateAttributeValueNoQuote_L (h : H) : stateAttributeValueNoQuote (lowerH h) = mapR (stateAttributeValueNoQuote h) := by
  unfold stateAttributeValueNoQuote mapR
  simp only [lowerH_s, lowerH_pos, offFrom_L, L_drop, spn_L noQuoteByte p_noQuote, L_length, L_get]
  cases offFrom h.s h.pos with
  | error e => rfl
  | ok v =>
    simp only [bind, Except.bind, pure, Except.pure]
    cases h.s[h.pos + spn noQuoteByte (h.s.drop h.pos)]? with
    | none => rfl
    | some ch =>
      simp only [Option.map_some, p_h5White]
      split <;> rfl

theorem stateAttributeValueQuote_L (q : UInt8) (hq : NonLetter q) (h : H) :
    stateAttributeValueQuote q (lowerH h) = mapR (stateAttributeValueQuote q h) := by
  unfold stateAttributeValueQuote mapR
  simp only [lowerH_pos]
  by_cases hp : h.pos > 0
  · simp only [hp, ↓reduceIte]
    rw [show ({ lowerH h with pos := h.pos + 1 } : H) = lowerH { h with pos := h.pos + 1 } from rfl]
    simp only [lowerH_s, lowerH_pos, offFrom_L, L_drop, indexByte_L q hq, L_length]
    cases offFrom h.s (h.pos + 1) with
    | error e => rfl
    | ok v =>
      simp only [bind, Except.bind, pure, Except.pure]
      cases indexByte (h.s.drop (h.pos + 1)) q <;> rfl
  · simp only [hp, ↓reduceIte, lowerH_s, lowerH_pos, offFrom_L, L_drop, indexByte_L q hq, L_length]
    cases offFrom h.s h.pos with
    | error e => rfl
    | ok v =>
      simp only [bind, Except.bind, pure, Except.pure]
      cases indexByte (h.s.drop h.pos) q <;> rfl

theorem skipWhite_L (h : H) : skipWhite (lowerH h) = (lowerH (skipWhite h).1, (skipWhite h).2.map lowerAscii) := by
  unfold skipWhite
  simp only [lowerH_s, lowerH_pos, L_drop, spn_L isSkipWhite p_skipWhite, L_get]
  rfl

theorem stateBeforeAttributeValue_L (h : H) : stateBeforeAttributeValue (lowerH h) = mapR (stateBeforeAttributeValue h) := by
  unfold stateBeforeAttributeValue
  rw [skipWhite_L]
  generalize skipWhite h = sw
  obtain ⟨h1, ch⟩ := sw
  simp only []
  cases ch with
  | none => simp only [Option.map_none]; rfl
  | some c =>
    simp only [Option.map_some, nl 34 (by decide), nl 39 (by decide), nl 96 (by decide)]
    split
    · exact stateAttributeValueQuote_L 34 (nonLetter_of 34 (by decide)) _
    · split
      · exact stateAttributeValueQuote_L 39 (nonLetter_of 39 (by decide)) _
      · split
        · exact stateAttributeValueQuote_L 96 (nonLetter_of 96 (by decide)) _
        · exact stateAttributeValueNoQuote_L _

/-- result of the slash-skipping loop under lower-casing -/
def mapB (r : M (H × Option UInt8 × Bool)) : M (H × Option UInt8 × Bool) :=
  r.map (fun p => (lowerH p.1, p.2.1.map lowerAscii, p.2.2))

theorem banLoop_L : ∀ (fuel : Nat) (h : H), banLoop (lowerH h) fuel = mapB (banLoop h fuel) := by
  intro fuel
  induction fuel with
  | zero => intro h; rfl
  | succ fuel ih =>
    intro h
    unfold banLoop
    simp only [lowerH_s, lowerH_pos, L_length]
    split
    · rw [skipWhite_L]
      generalize skipWhite h = sw
      obtain ⟨h1, ch⟩ := sw
      simp only []
      cases ch with
      | none => simp only [Option.map_none]; rfl
      | some c =>
        simp only [Option.map_some, nl 47 (by decide)]
        split
        · rw [show ({ lowerH h1 with pos := (lowerH h1).pos + 1 } : H) = lowerH { h1 with pos := h1.pos + 1 } from rfl]
          simp only [lowerH_s, lowerH_pos, L_get]
          cases (h1.s)[h1.pos + 1]? with
          | none => rfl
          | some c2 =>
            simp only [Option.map_some, nl_ne 62 (by decide)]
            split
            · exact ih _
            · rfl
        · rfl
    · rfl

theorem selfClosing_beforeAttrName_L : ∀ (d : Nat) (h : H),
    stateSelfClosingStartTag d (lowerH h) = mapR (stateSelfClosingStartTag d h) ∧
    stateBeforeAttributeName d (lowerH h) = mapR (stateBeforeAttributeName d h) := by
  intro d
  induction d with
  | zero => intro h; exact ⟨by unfold stateSelfClosingStartTag; rfl, by unfold stateBeforeAttributeName; rfl⟩
  | succ d ih =>
    intro h
    constructor
    · unfold stateSelfClosingStartTag
      simp only [lowerH_s, lowerH_pos, L_length, at'_L]
      split
      · rfl
      · cases hc : at' h.s h.pos with
        | error e => rfl
        | ok c =>
          simp only [Except.map, bind, Except.bind, nl 62 (by decide)]
          split
          · by_cases hp0 : h.pos = 0
            · simp only [hp0, ↓reduceIte]; rfl
            · simp only [hp0, ↓reduceIte]; rfl
          · exact (ih h).2
    · unfold stateBeforeAttributeName
      simp only [lowerH_s, L_length, banLoop_L]
      cases hb : banLoop h (h.s.length + 1) with
      | error e => rfl
      | ok r =>
        obtain ⟨h1, ch, slash⟩ := r
        simp only [mapB, Except.map, bind, Except.bind]
        cases slash with
        | true => simp only [↓reduceIte]; exact (ih h1).1
        | false =>
          simp only [Bool.false_eq_true, ↓reduceIte]
          cases ch with
          | none => rfl
          | some c =>
            simp only [Option.map_some, nl 62 (by decide)]
            split
            · simp only [lowerH_s, lowerH_pos, offFrom_L]
              cases offFrom h1.s h1.pos <;> rfl
            · exact stateAttributeName_L h1

theorem stateSelfClosingStartTag_L (d : Nat) (h : H) : stateSelfClosingStartTag d (lowerH h) = mapR (stateSelfClosingStartTag d h) :=
  (selfClosing_beforeAttrName_L d h).1
theorem stateBeforeAttributeName_L (d : Nat) (h : H) : stateBeforeAttributeName d (lowerH h) = mapR (stateBeforeAttributeName d h) :=
  (selfClosing_beforeAttrName_L d h).2

theorem stateAfterAttributeName_L (h : H) : stateAfterAttributeName (lowerH h) = mapR (stateAfterAttributeName h) := by
  unfold stateAfterAttributeName
  rw [skipWhite_L]
  generalize skipWhite h = sw
  obtain ⟨h1, ch⟩ := sw
  simp only []
  cases ch with
  | none => simp only [Option.map_none]; rfl
  | some c =>
    simp only [Option.map_some, nl 47 (by decide), nl 61 (by decide), nl 62 (by decide)]
    split
    · exact stateSelfClosingStartTag_L _ { h1 with pos := h1.pos + 1 }
    · split
      · exact stateBeforeAttributeValue_L { h1 with pos := h1.pos + 1 }
      · split
        · exact stateTagNameClose_L h1
        · exact stateAttributeName_L h1

theorem stateAfterAttributeValueQuotedState_L (h : H) :
    stateAfterAttributeValueQuotedState (lowerH h) = mapR (stateAfterAttributeValueQuotedState h) := by
  unfold stateAfterAttributeValueQuotedState
  simp only [lowerH_s, lowerH_pos, L_length, at'_L]
  split
  · rfl
  · cases hc : at' h.s h.pos with
    | error e => rfl
    | ok c =>
      simp only [Except.map, bind, Except.bind, p_h5White, nl 47 (by decide), nl 62 (by decide)]
      split
      · exact stateBeforeAttributeName_L _ { h with pos := h.pos + 1 }
      · split
        · exact stateSelfClosingStartTag_L _ { h with pos := h.pos + 1 }
        · split
          · simp only [offFrom_L]
            cases offFrom h.s h.pos <;> rfl
          · exact stateBeforeAttributeName_L _ h

/-- the input has no (case-sensitive) `[CDATA[` marker anywhere -/
def NoCdata (s : Bytes) : Prop := ∀ p, (s.drop p).take 7 ≠ cdataOpen

theorem lower_idem (x : UInt8) : lowerAscii (lowerAscii x) = lowerAscii x := by
  have := forall_byte (fun x => lowerAscii (lowerAscii x) == lowerAscii x) (by decide +kernel) x; simpa using this

theorem goLower_L (t : Bytes) : goLowerAscii (L t) = goLowerAscii t := by
  simp [goLowerAscii, L, List.map_map, Function.comp_def, lower_idem]

theorem L_ne_cdata (t : Bytes) : (L t == cdataOpen) = false := by
  cases ht : L t == cdataOpen with
  | false => rfl
  | true =>
    have e : L t = cdataOpen := by simpa using ht
    have h1 : (L t)[1]? = some 67 := by rw [e]; rfl
    rw [L_get] at h1
    cases h2 : t[1]? with
    | none => simp [h2] at h1
    | some x =>
      simp only [h2, Option.map_some, Option.some.injEq] at h1
      have := forall_byte (fun x => lowerAscii x != 67) (by decide +kernel) x
      simp only [bne_iff_ne, ne_eq] at this
      exact absurd h1 this

theorem L_dashes : ∀ (t : Bytes), (L t == [45, 45]) = (t == [45, 45])
  | [] => rfl
  | [a] => by simp [L]
  | [a, b] => by
    simp only [L, List.map_cons, List.map_nil]
    have ha := nl 45 (by decide) a
    have hb := nl 45 (by decide) b
    simp only [List.cons_beq_cons, ha, hb]
  | a :: b :: c :: r => by simp [L]

theorem stateMarkupDeclarationOpen_L (h : H) (hno : NoCdata h.s) :
    stateMarkupDeclarationOpen (lowerH h) = mapR (stateMarkupDeclarationOpen h) := by
  unfold stateMarkupDeclarationOpen
  simp only [lowerH_s, lowerH_pos, L_length, L_drop, L_take, goLower_L, L_ne_cdata, L_dashes]
  have hc : ((h.s.drop h.pos).take 7 == cdataOpen) = false := by
    have := hno h.pos
    simpa using this
  simp only [hc, Bool.and_false, Bool.false_eq_true, ↓reduceIte]
  split
  · exact stateDoctype_L h
  · split
    · exact stateComment_L { h with pos := h.pos + 2 }
    · exact stateBogusComment_L h

theorem endTag_tagOpen_data_L : ∀ (d : Nat) (h : H), NoCdata h.s →
    stateEndTagOpen d (lowerH h) = mapR (stateEndTagOpen d h) ∧
    stateTagOpen d (lowerH h) = mapR (stateTagOpen d h) ∧
    stateData d (lowerH h) = mapR (stateData d h) := by
  intro d
  induction d with
  | zero =>
    intro h _
    exact ⟨by unfold stateEndTagOpen; rfl, by unfold stateTagOpen; rfl, by unfold stateData; rfl⟩
  | succ d ih =>
    intro h hno
    refine ⟨?_, ?_, ?_⟩
    · unfold stateEndTagOpen
      simp only [lowerH_s, lowerH_pos, L_length, at'_L]
      split
      · rfl
      · cases hc : at' h.s h.pos with
        | error e => rfl
        | ok c =>
          simp only [Except.map, bind, Except.bind, nl 62 (by decide), p_alpha]
          split
          · exact (ih h hno).2.2
          · split
            · exact stateTagName_L h
            · exact stateBogusComment_L { h with isClose := false }
    · unfold stateTagOpen
      simp only [lowerH_s, lowerH_pos, L_length, at'_L]
      split
      · rfl
      · cases hc : at' h.s h.pos with
        | error e => rfl
        | ok c =>
          simp only [Except.map, bind, Except.bind, nl 33 (by decide), nl 47 (by decide), nl 63 (by decide), nl 37 (by decide),
            nl 0 (by decide), p_alpha]
          split
          · exact stateMarkupDeclarationOpen_L { h with pos := h.pos + 1 } hno
          · split
            · exact (ih { h with pos := h.pos + 1, isClose := true } hno).1
            · split
              · exact stateBogusComment_L { h with pos := h.pos + 1 }
              · split
                · exact stateBogusComment2_L { h with pos := h.pos + 1 }
                · split
                  · exact stateTagName_L h
                  · split
                    · exact stateTagName_L h
                    · by_cases hp0 : (h.pos == 0) = true
                      · simp only [hp0, ↓reduceIte]; exact (ih h hno).2.2
                      · simp only [hp0, Bool.false_eq_true, ↓reduceIte]; rfl
    · unfold stateData
      simp only [lowerH_s, lowerH_pos, offFrom_L, L_drop, indexByte_L 60 (nonLetter_of 60 (by decide)), L_length]
      cases offFrom h.s h.pos with
      | error e => rfl
      | ok v =>
        simp only [bind, Except.bind, pure, Except.pure]
        cases indexByte (h.s.drop h.pos) 60 with
        | none => rfl
        | some i =>
          simp only []
          split
          · exact (ih (emit h v i .dataText (h.pos + i + 1) .tagOpen) hno).2.1
          · rfl

/-- **one step of the tokenizer commutes with lower-casing the input** -/
theorem next_L (h : H) (hno : NoCdata h.s) : next (lowerH h) = mapR (next h) := by
  unfold next
  rw [show (lowerH h).state = h.state from rfl]
  cases h.state <;> simp only []
  · rfl
  · exact (endTag_tagOpen_data_L _ h hno).2.2
  · exact (endTag_tagOpen_data_L _ h hno).2.1
  · exact stateBeforeAttributeName_L _ h
  · exact stateSelfClosingStartTag_L _ h
  · exact stateTagNameClose_L h
  · exact stateAfterAttributeName_L h
  · exact stateBeforeAttributeValue_L h
  · exact stateAfterAttributeValueQuotedState_L h
  · exact stateAttributeValueQuote_L 39 (nonLetter_of 39 (by decide)) h
  · exact stateAttributeValueQuote_L 34 (nonLetter_of 34 (by decide)) h
  · exact stateAttributeValueQuote_L 96 (nonLetter_of 96 (by decide)) h

end LibInj.H5
