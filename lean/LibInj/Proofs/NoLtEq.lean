import LibInj.Proofs.XssTotal
set_option linter.unusedSimpArgs false
set_option linter.unusedVariables false
/-! Without `<` and `=` the machine only ever emits attribute names, tag closers and text (C15). -/
namespace LibInj.H5
open LibInj

def NoLtEq (s : Bytes) : Prop := (60 : UInt8) ∉ s ∧ (61 : UInt8) ∉ s

theorem ne_of_getElem? {s : Bytes} {i : Nat} {c d : UInt8} (hd : d ∉ s) (h : s[i]? = some c) : c ≠ d := by
  intro hcd
  subst hcd
  exact hd (List.mem_of_getElem? h)

/-- token types that can never make `xssLoop` return true (an attribute name only sets `attr`) -/
def SafeTy (t : Ty) : Prop := t = .attrName ∨ t = .tagNameClose ∨ t = .tagNameSelfClose ∨ t = .dataText

/-- states reachable without `<` and `=` (after the initial step) -/
def SafeSt (st : St) : Prop :=
  st = .beforeAttrName ∨ st = .afterAttrName ∨ st = .selfClosing ∨ st = .tagNameClose ∨ st = .data ∨ st = .eof ∨
  st = .afterAttrValueQuoted

def Shape (r : M (Bool × H)) : Prop := ∀ b h', r = .ok (b, h') → b = true → SafeTy h'.tokType ∧ SafeSt h'.state

theorem shape_false (h : H) : Shape (.ok (false, h)) := by
  intro b h' hr hb; cases hr; cases hb

theorem stateData_shape (d : Nat) (h : H) (hs : NoLtEq h.s) : Shape (stateData (d + 1) h) := by
  intro b h' hr hb
  unfold stateData at hr
  have hnone : indexByte (h.s.drop h.pos) 60 = none :=
    (indexByte_none_iff _ _).mpr (fun hm => hs.1 (List.mem_of_mem_drop hm))
  by_cases hp : h.pos ≤ h.s.length
  · simp only [offFrom_ok hp, hnone, bind, Except.bind, pure, Except.pure, Except.ok.injEq, Prod.mk.injEq] at hr
    obtain ⟨_, rfl⟩ := hr
    exact ⟨Or.inr (Or.inr (Or.inr rfl)), Or.inr (Or.inr (Or.inr (Or.inr (Or.inr (Or.inl rfl)))))⟩
  · simp [offFrom, hp, bind, Except.bind] at hr

theorem stateTagNameClose_shape (h : H) : Shape (stateTagNameClose h) := by
  intro b h' hr hb
  unfold stateTagNameClose at hr
  by_cases hp : h.pos ≤ h.s.length
  · simp only [offFrom_ok hp, bind, Except.bind, pure, Except.pure, Except.ok.injEq, Prod.mk.injEq] at hr
    obtain ⟨_, rfl⟩ := hr
    refine ⟨Or.inr (Or.inl rfl), ?_⟩
    simp only [SafeSt]
    split <;> simp
  · simp [offFrom, hp, bind, Except.bind] at hr

theorem stateAttributeName_shape (h : H) (hs : NoLtEq h.s) : Shape (stateAttributeName h) := by
  intro b h' hr hb
  unfold stateAttributeName at hr
  by_cases hp : h.pos ≤ h.s.length
  · simp only [offFrom_ok hp, bind, Except.bind, pure, Except.pure] at hr
    split at hr
    · simp only [Except.ok.injEq, Prod.mk.injEq] at hr
      obtain ⟨_, rfl⟩ := hr
      exact ⟨Or.inl rfl, by simp [SafeSt, emit]⟩
    · rename_i ch hch
      have hne := ne_of_getElem? hs.2 hch
      split at hr
      · simp only [Except.ok.injEq, Prod.mk.injEq] at hr
        obtain ⟨_, rfl⟩ := hr
        exact ⟨Or.inl rfl, by simp [SafeSt, emit]⟩
      · split at hr
        · simp only [Except.ok.injEq, Prod.mk.injEq] at hr
          obtain ⟨_, rfl⟩ := hr
          exact ⟨Or.inl rfl, by simp [SafeSt, emit]⟩
        · split at hr
          · rename_i h61
            exact absurd (by simpa using h61) hne
          · simp only [Except.ok.injEq, Prod.mk.injEq] at hr
            obtain ⟨_, rfl⟩ := hr
            exact ⟨Or.inl rfl, by simp [SafeSt, emit]⟩
  · simp [offFrom, hp, bind, Except.bind] at hr

theorem SC_BAN_shape : ∀ (d : Nat) (h : H), NoLtEq h.s →
    Shape (stateSelfClosingStartTag d h) ∧ Shape (stateBeforeAttributeName d h) := by
  intro d
  induction d with
  | zero =>
    intro h hs
    constructor <;> (intro b h' hr hb; simp [stateSelfClosingStartTag, stateBeforeAttributeName] at hr)
  | succ d ih =>
    intro h hs
    constructor
    · intro b h' hr hb
      unfold stateSelfClosingStartTag at hr
      split at hr
      · simp only [pure, Except.pure, Except.ok.injEq, Prod.mk.injEq] at hr
        obtain ⟨rfl, _⟩ := hr; cases hb
      · cases hat : at' h.s h.pos with
        | error e => simp [hat, bind, Except.bind] at hr
        | ok ch =>
          simp only [hat, bind, Except.bind] at hr
          split at hr
          · split at hr
            · cases hr
            · simp only [pure, Except.pure, Except.ok.injEq, Prod.mk.injEq] at hr
              obtain ⟨_, rfl⟩ := hr
              exact ⟨Or.inr (Or.inr (Or.inl rfl)), by simp [SafeSt, emit]⟩
          · exact (ih h hs).2 b h' hr hb
    · intro b h' hr hb
      unfold stateBeforeAttributeName at hr
      cases hbl : banLoop h (h.s.length + 1) with
      | error e => simp [hbl, bind, Except.bind] at hr
      | ok res =>
        obtain ⟨h1, ch, slash⟩ := res
        simp only [hbl, bind, Except.bind] at hr
        -- banLoop does not change the input
        have hs1 : h1.s = h.s := by
          by_cases hp : h.pos ≤ h.s.length
          · obtain ⟨h'', ch'', sl'', hr'', a1, _⟩ := banLoop_spec h hp (h.s.length + 1) (by omega)
            rw [hbl] at hr''
            simp only [Except.ok.injEq, Prod.mk.injEq] at hr''
            rw [hr''.1]; exact a1
          · -- out-of-range start: banLoop returns h itself
            unfold banLoop at hbl
            have : ¬ h.pos < h.s.length := by omega
            simp [this] at hbl
            rw [← hbl.1]
        split at hr
        · exact (ih h1 (hs1 ▸ hs)).1 b h' hr hb
        · split at hr
          · simp only [pure, Except.pure, Except.ok.injEq, Prod.mk.injEq] at hr
            obtain ⟨rfl, _⟩ := hr; cases hb
          · split at hr
            · cases hof : offFrom h1.s h1.pos with
              | error e => simp [hof, bind, Except.bind] at hr
              | ok st =>
                simp only [hof, bind, Except.bind, pure, Except.pure, Except.ok.injEq, Prod.mk.injEq] at hr
                obtain ⟨_, rfl⟩ := hr
                exact ⟨Or.inr (Or.inl rfl), by simp [SafeSt, emit]⟩
            · exact stateAttributeName_shape h1 (hs1 ▸ hs) b h' hr hb

theorem skipWhite_s (h : H) : (skipWhite h).1.s = h.s := by unfold skipWhite; rfl

theorem stateAfterAttributeName_shape (h : H) (hs : NoLtEq h.s) : Shape (stateAfterAttributeName h) := by
  intro b h' hr hb
  unfold stateAfterAttributeName at hr
  have e1 := skipWhite_s h
  have e4 : (skipWhite h).2 = h.s[(skipWhite h).1.pos]? := by unfold skipWhite; rfl
  generalize skipWhite h = sw at e1 e4 hr
  obtain ⟨h1, ch⟩ := sw
  simp only at e1 e4 hr
  cases ch with
  | none =>
    simp only [pure, Except.pure, Except.ok.injEq, Prod.mk.injEq] at hr
    obtain ⟨rfl, _⟩ := hr; cases hb
  | some c =>
    have hne := ne_of_getElem? hs.2 e4.symm
    simp only at hr
    split at hr
    · exact (SC_BAN_shape callDepth _ (by simpa [e1] using hs)).1 b h' hr hb
    · split at hr
      · rename_i h61; exact absurd (by simpa using h61) hne
      · split at hr
        · exact stateTagNameClose_shape h1 b h' hr hb
        · exact stateAttributeName_shape h1 (e1 ▸ hs) b h' hr hb

theorem stateAfterAttributeValueQuotedState_shape (h : H) (hs : NoLtEq h.s) :
    Shape (stateAfterAttributeValueQuotedState h) := by
  intro b h' hr hb
  unfold stateAfterAttributeValueQuotedState at hr
  split at hr
  · simp only [pure, Except.pure, Except.ok.injEq, Prod.mk.injEq] at hr
    obtain ⟨rfl, _⟩ := hr; cases hb
  · cases hat : at' h.s h.pos with
    | error e => simp [hat, bind, Except.bind] at hr
    | ok ch =>
      simp only [hat, bind, Except.bind] at hr
      split at hr
      · exact (SC_BAN_shape callDepth _ (by simpa using hs)).2 b h' hr hb
      · split at hr
        · exact (SC_BAN_shape callDepth _ (by simpa using hs)).1 b h' hr hb
        · split at hr
          · cases hof : offFrom h.s h.pos with
            | error e => simp [hof, bind, Except.bind] at hr
            | ok st =>
              simp only [hof, bind, Except.bind, pure, Except.pure, Except.ok.injEq, Prod.mk.injEq] at hr
              obtain ⟨_, rfl⟩ := hr
              exact ⟨Or.inr (Or.inl rfl), by simp [SafeSt, emit]⟩
          · exact (SC_BAN_shape callDepth _ hs).2 b h' hr hb

/-- from a safe state, an emitting step yields a harmless token type and a safe state -/
theorem next_shape (h : H) (hs : NoLtEq h.s) (hst : SafeSt h.state) : Shape (next h) := by
  unfold next
  rcases hst with hst | hst | hst | hst | hst | hst | hst <;> rw [hst] <;> simp only []
  · exact (SC_BAN_shape callDepth h hs).2
  · exact stateAfterAttributeName_shape h hs
  · exact (SC_BAN_shape callDepth h hs).1
  · exact stateTagNameClose_shape h
  · exact stateData_shape _ h hs
  · exact shape_false h
  · exact stateAfterAttributeValueQuotedState_shape h hs

end LibInj.H5
