import LibInj.Proofs.H5Good
import LibInj.Proofs.H5Shift
set_option linter.unusedSimpArgs false
set_option linter.unusedVariables false
/-! C17: emitted tokens are in non-decreasing, non-overlapping order and there are at most `|s|+1` of them.

Each state has a lower bound `lbN` for the start of the next token (`pos`, or `pos-1` for the two states
that re-emit the byte before `pos`) and a potential `potN = |s| - lbN + credit`; every emitting step puts
its token between the old and the new lower bound and lowers the potential by at least one. -/
namespace LibInj.H5
open LibInj

def delta : St → Nat
  | .tagOpen => 1 | .selfClosing => 1 | _ => 0

/-- an attribute name followed by `=` consumed two bytes for one token: one credit for a possibly empty value -/
def cred : St → Nat
  | .eof => 0 | .beforeAttrValue => 2 | _ => 1

def lbN (n : Nat) (h : H) : Nat := if h.state = .eof then n else h.pos - delta h.state
def potN (n : Nat) (h : H) : Nat := n - lbN n h + cred h.state

/-- a step that emits does so at or after `base`, ends before the next state's lower bound, and leaves a
potential strictly below the budget `|s| - base + c` -/
def Ord (base c : Nat) (h : H) (r : M (Bool × H)) : Prop :=
  ∀ h', r = .ok (true, h') →
    base ≤ h'.tokStart ∧ h'.tokStart + h'.tokLen ≤ lbN h.s.length h' ∧ potN h.s.length h' + 1 ≤ h.s.length - base + c

theorem Ord.mono {base c base' c' : Nat} {h0 h : H} {r : M (Bool × H)} (hs : h.s = h0.s) (hb : base' ≤ base)
    (hbud : h.s.length - base + c ≤ h.s.length - base' + c') (g : Ord base c h r) : Ord base' c' h0 r := by
  intro h' hr
  obtain ⟨a1, a2, a3⟩ := g h' hr
  rw [hs] at a2 a3 hbud
  exact ⟨by omega, a2, by omega⟩

theorem ord_false (base c : Nat) (h x : H) : Ord base c h (Except.ok (false, x)) := by
  intro h' hr
  simp only [Except.ok.injEq, Prod.mk.injEq] at hr
  exact absurd hr.1 (by decide)

theorem ord_true (base c : Nat) (h x : H)
    (hx : base ≤ x.tokStart ∧ x.tokStart + x.tokLen ≤ lbN h.s.length x ∧ potN h.s.length x + 1 ≤ h.s.length - base + c) :
    Ord base c h (Except.ok (true, x)) := by
  intro h' hr
  simp only [Except.ok.injEq, Prod.mk.injEq, true_and] at hr
  rw [← hr]; exact hx

macro "fin_ord" : tactic =>
  `(tactic| (refine ord_true _ _ _ _ ?_; simp [lbN, potN, delta, cred, emit] <;> omega))

theorem stateBogusComment_ord (h : H) (hp : h.pos ≤ h.s.length) : Ord h.pos 1 h (stateBogusComment h) := by
  unfold stateBogusComment
  simp only [offFrom_ok hp, bind, Except.bind, pure, Except.pure]
  split
  · fin_ord
  · rename_i i hi
    have := indexByte_lt hi
    simp at this
    fin_ord

theorem stateDoctype_ord (h : H) (hp : h.pos ≤ h.s.length) : Ord h.pos 1 h (stateDoctype h) := by
  unfold stateDoctype
  simp only [offFrom_ok hp, bind, Except.bind, pure, Except.pure]
  split
  · fin_ord
  · rename_i i hi
    have := indexByte_lt hi
    simp at this
    fin_ord

theorem stateTagNameClose_ord (h : H) (hp : h.pos < h.s.length) : Ord h.pos 1 h (stateTagNameClose h) := by
  unfold stateTagNameClose
  simp only [offFrom_ok (Nat.le_of_lt hp), bind, Except.bind, pure, Except.pure]
  refine ord_true _ _ _ _ ?_
  by_cases hlt : h.pos + 1 < h.s.length
  · simp [lbN, potN, delta, cred, hlt]; omega
  · simp [lbN, potN, delta, cred, hlt]; omega

theorem bogus2Loop_ord (h : H) (hp : h.pos ≤ h.s.length) :
    ∀ fuel pos, h.pos ≤ pos → pos ≤ h.s.length → Ord h.pos 1 h (bogus2Loop h pos fuel) := by
  intro fuel
  induction fuel with
  | zero => intro pos _ _ h' hr; cases hr
  | succ fuel ih =>
    intro pos h1 h2
    unfold bogus2Loop
    simp only [offFrom_ok h2, offFrom_ok hp, bind, Except.bind, pure, Except.pure]
    cases hi : indexByte (h.s.drop pos) 37 with
    | none => fin_ord
    | some index =>
      have hlt := indexByte_lt hi
      simp at hlt
      simp only []
      split
      · fin_ord
      · rename_i hg
        rw [at'_ok (by omega : pos + index + 1 < h.s.length)]
        simp only []
        split
        · exact ih (pos + index + 1) (by omega) (by omega)
        · fin_ord

theorem stateBogusComment2_ord (h : H) (hp : h.pos ≤ h.s.length) : Ord h.pos 1 h (stateBogusComment2 h) :=
  bogus2Loop_ord h hp _ _ (Nat.le_refl _) hp

theorem cdataLoop_ord (h : H) (hp : h.pos ≤ h.s.length) :
    ∀ fuel pos, h.pos ≤ pos → pos ≤ h.s.length → Ord h.pos 1 h (cdataLoop h pos fuel) := by
  intro fuel
  induction fuel with
  | zero => intro pos _ _ h' hr; cases hr
  | succ fuel ih =>
    intro pos h1 h2
    unfold cdataLoop
    simp only [offFrom_ok h2, offFrom_ok hp, bind, Except.bind, pure, Except.pure]
    cases hi : indexByte (h.s.drop pos) 93 with
    | none => fin_ord
    | some index =>
      have hlt := indexByte_lt hi
      simp at hlt
      simp only []
      split
      · fin_ord
      · rename_i hg
        have h3 : pos + index + 2 < h.s.length := by omega
        rw [at'_ok (by omega : pos + index + 1 < h.s.length)]
        simp only []
        by_cases hc1 : h.s[pos + index + 1] = 93
        · simp only [hc1, beq_self_eq_true, ite_true, at'_ok h3]
          by_cases hc2 : h.s[pos + index + 2] = 62
          · have : (h.s[pos + index + 2] == 62) = true := by simp [hc2]
            simp only [this, ite_true]
            fin_ord
          · have : (h.s[pos + index + 2] == 62) = false := by simpa using hc2
            simp only [this, Bool.false_eq_true, ite_false]
            exact ih (pos + index + 1) (by omega) (by omega)
        · have : (h.s[pos + index + 1] == 93) = false := by simpa using hc1
          simp only [this, Bool.false_eq_true, ite_false]
          exact ih (pos + index + 1) (by omega) (by omega)

theorem stateCData_ord (h : H) (hp : h.pos ≤ h.s.length) : Ord h.pos 1 h (stateCData h) :=
  cdataLoop_ord h hp _ _ (Nat.le_refl _) hp

theorem commentLoop_ord (h : H) (hp : h.pos ≤ h.s.length) :
    ∀ fuel pos, h.pos ≤ pos → pos ≤ h.s.length → Ord h.pos 1 h (commentLoop h pos fuel) := by
  intro fuel
  induction fuel with
  | zero => intro pos _ _ h' hr; cases hr
  | succ fuel ih =>
    intro pos h1 h2
    unfold commentLoop
    simp only [offFrom_ok h2, offFrom_ok hp, bind, Except.bind, pure, Except.pure]
    have eofOrd : Ord h.pos 1 h (Except.ok (true, { h with state := .eof, tokStart := h.pos, tokLen := h.s.length - h.pos, tokType := .tagComment })) := by
      fin_ord
    cases hi : indexByte (h.s.drop pos) 45 with
    | none => exact eofOrd
    | some index =>
      have hlt := indexByte_lt hi
      simp at hlt
      simp only []
      split
      · exact eofOrd
      · rename_i hg
        have hn := spn_le isNul (h.s.drop (pos + index + 1))
        simp at hn
        generalize spn isNul (h.s.drop (pos + index + 1)) = nulls at hn ⊢
        split
        · exact eofOrd
        · rename_i he1
          have hb1 : pos + index + (1 + nulls) < h.s.length := by
            have : ¬ (pos + index + (1 + nulls) = h.s.length) := by simpa using he1
            omega
          rw [at'_ok hb1]
          simp only []
          split
          · exact ih (pos + index + 1) (by omega) (by omega)
          · split
            · exact eofOrd
            · rename_i he2
              have hb2 : pos + index + (1 + nulls + 1) < h.s.length := by
                have : ¬ (pos + index + (1 + nulls + 1) = h.s.length) := by simpa using he2
                omega
              rw [at'_ok hb2]
              simp only []
              split
              · exact ih (pos + index + 1) (by omega) (by omega)
              · fin_ord

theorem stateComment_ord (h : H) (hp : h.pos ≤ h.s.length) : Ord h.pos 1 h (stateComment h) :=
  commentLoop_ord h hp _ _ (Nat.le_refl _) hp

theorem stateMarkupDeclarationOpen_ord (h : H) (hp : h.pos ≤ h.s.length) :
    Ord h.pos 1 h (stateMarkupDeclarationOpen h) := by
  unfold stateMarkupDeclarationOpen
  simp only []
  split
  · exact stateDoctype_ord h hp
  · split
    · rename_i _ hc
      have h7 : h.s.length - h.pos ≥ 7 := by
        simp only [Bool.and_eq_true, decide_eq_true_eq] at hc; exact hc.1
      exact Ord.mono (h := { h with pos := h.pos + 7 }) rfl (by simp) (by simp; omega) (stateCData_ord _ (by simp; omega))
    · split
      · rename_i _ _ hc
        have h2 : h.s.length - h.pos ≥ 2 := by
          simp only [Bool.and_eq_true, decide_eq_true_eq] at hc; exact hc.1
        exact Ord.mono (h := { h with pos := h.pos + 2 }) rfl (by simp) (by simp; omega) (stateComment_ord _ (by simp; omega))
      · exact stateBogusComment_ord h hp

/-- a tag name may be empty here (the caller has consumed the `<`): budget 2 -/
theorem stateTagName_ord (h : H) (hp : h.pos < h.s.length) : Ord h.pos 2 h (stateTagName h) := by
  unfold stateTagName
  simp only [offFrom_ok (Nat.le_of_lt hp), bind, Except.bind, pure, Except.pure]
  have hs := spn_le tagNameByte (h.s.drop h.pos)
  generalize spn tagNameByte (h.s.drop h.pos) = n at hs ⊢
  simp at hs
  split
  · fin_ord
  · rename_i ch hch
    have := getElem?_some_lt hch
    split
    · fin_ord
    · split
      · fin_ord
      · split
        · fin_ord
        · fin_ord

theorem stateAttributeName_ord (h : H) (hp : h.pos < h.s.length) : Ord h.pos 1 h (stateAttributeName h) := by
  unfold stateAttributeName
  simp only [offFrom_ok (Nat.le_of_lt hp), bind, Except.bind, pure, Except.pure]
  have hs := spn_le attrNameByte (h.s.drop (h.pos + 1))
  generalize spn attrNameByte (h.s.drop (h.pos + 1)) = n at hs ⊢
  simp at hs
  split
  · fin_ord
  · rename_i ch hch
    have := getElem?_some_lt hch
    repeat' split
    all_goals (fin_ord)

theorem stateAttributeValueNoQuote_ord (h : H) (hp : h.pos ≤ h.s.length) : Ord h.pos 2 h (stateAttributeValueNoQuote h) := by
  unfold stateAttributeValueNoQuote
  simp only [offFrom_ok hp, bind, Except.bind, pure, Except.pure]
  have hs := spn_le noQuoteByte (h.s.drop h.pos)
  generalize spn noQuoteByte (h.s.drop h.pos) = n at hs ⊢
  simp at hs
  split
  · fin_ord
  · rename_i ch hch
    have := getElem?_some_lt hch
    split
    · fin_ord
    · fin_ord

theorem stateAttributeValueQuote_ord (q : UInt8) (h : H) (hp : h.pos < h.s.length ∨ h.pos = 0) :
    Ord h.pos 1 h (stateAttributeValueQuote q h) := by
  unfold stateAttributeValueQuote
  by_cases h0 : h.pos > 0
  · have hlt : h.pos < h.s.length := by rcases hp with hp | hp <;> omega
    simp only [h0, ↓reduceIte, offFrom_ok (show h.pos + 1 ≤ h.s.length by omega), bind, Except.bind, pure, Except.pure]
    split
    · fin_ord
    · rename_i i hi
      have := indexByte_lt hi
      simp at this
      fin_ord
  · have hz : h.pos = 0 := by omega
    simp only [h0, ↓reduceIte, offFrom_ok (show h.pos ≤ h.s.length by omega), bind, Except.bind, pure, Except.pure]
    split
    · fin_ord
    · rename_i i hi
      have := indexByte_lt hi
      simp at this
      fin_ord

theorem stateBeforeAttributeValue_ord (h : H) (hp : h.pos ≤ h.s.length) : Ord h.pos 2 h (stateBeforeAttributeValue h) := by
  unfold stateBeforeAttributeValue
  obtain ⟨e1, e2, e3, e4, e5⟩ := skipWhite_spec h hp
  generalize skipWhite h = sw at e1 e2 e3 e4 e5 ⊢
  obtain ⟨h1, ch⟩ := sw
  simp only at e1 e2 e3 e4 e5 ⊢
  cases ch with
  | none => exact ord_false _ _ _ _
  | some c =>
    have hlt : h1.pos < h1.s.length := by rw [e1]; exact getElem?_some_lt e4.symm
    have hq : ∀ q, Ord h.pos 2 h (stateAttributeValueQuote q h1) :=
      fun q => Ord.mono e1 e2 (by omega) (stateAttributeValueQuote_ord q h1 (Or.inl hlt))
    simp only []
    split
    · exact hq _
    · split
      · exact hq _
      · split
        · exact hq _
        · exact Ord.mono e1 e2 (by omega) (stateAttributeValueNoQuote_ord h1 (Nat.le_of_lt hlt))

theorem sc_ban_ord : ∀ (d : Nat),
    (∀ h : H, h.pos ≤ h.s.length → 1 ≤ h.pos → Ord (h.pos - 1) 1 h (stateSelfClosingStartTag d h)) ∧
    (∀ h : H, h.pos ≤ h.s.length → Ord h.pos 1 h (stateBeforeAttributeName d h))
  | 0 => by
    constructor
    · intro h _ _ h' hr; cases hr
    · intro h _ h' hr; cases hr
  | d + 1 => by
    obtain ⟨ihS, ihB⟩ := sc_ban_ord d
    constructor
    · intro h hp h1
      unfold stateSelfClosingStartTag
      by_cases hge : h.pos ≥ h.s.length
      · simp only [hge, ↓reduceIte, pure, Except.pure]
        exact ord_false _ _ _ _
      · have hlt : h.pos < h.s.length := by omega
        simp only [hge, ↓reduceIte, at'_ok hlt, bind, Except.bind, pure, Except.pure]
        split
        · have h0 : ¬ (h.pos = 0) := by omega
          simp only [h0, ↓reduceIte]
          fin_ord
        · exact Ord.mono rfl (by omega) (by omega) (ihB h hp)
    · intro h hp
      unfold stateBeforeAttributeName
      obtain ⟨h', ch, slash, hr, a1, a2, a3, a4, a5⟩ := banLoop_spec h hp (h.s.length + 1) (by omega)
      simp only [hr, bind, Except.bind]
      cases slash with
      | true =>
        simp only [↓reduceIte]
        obtain ⟨b1, b2⟩ := a4 rfl
        exact Ord.mono a1 (by omega) (by omega) (ihS h' (by rw [a1]; exact a3) (by omega))
      | false =>
        simp only [Bool.false_eq_true, ↓reduceIte]
        obtain ⟨c1, c2⟩ := a5 rfl
        cases ch with
        | none => exact ord_false _ _ _ _
        | some c =>
          have hlt : h'.pos < h.s.length := getElem?_some_lt c1.symm
          simp only []
          split
          · simp only [offFrom_ok (show h'.pos ≤ h'.s.length by rw [a1]; omega), bind, Except.bind, pure, Except.pure]
            refine ord_true _ _ _ _ ?_
            simp [lbN, potN, delta, cred, emit, a1]; omega
          · exact Ord.mono a1 a2 (by omega) (stateAttributeName_ord h' (by rw [a1]; exact hlt))

theorem stateAfterAttributeName_ord (h : H) (hp : h.pos ≤ h.s.length) : Ord h.pos 1 h (stateAfterAttributeName h) := by
  unfold stateAfterAttributeName
  obtain ⟨e1, e2, e3, e4, e5⟩ := skipWhite_spec h hp
  generalize skipWhite h = sw at e1 e2 e3 e4 e5 ⊢
  obtain ⟨h1, ch⟩ := sw
  simp only at e1 e2 e3 e4 e5 ⊢
  cases ch with
  | none => exact ord_false _ _ _ _
  | some c =>
    have hlt : h1.pos < h.s.length := getElem?_some_lt e4.symm
    simp only []
    split
    · exact Ord.mono (h := { h1 with pos := h1.pos + 1 }) e1 (by simp; omega) (by simp; omega)
        ((sc_ban_ord callDepth).1 _ (by simp; rw [e1]; omega) (by simp))
    · split
      · exact Ord.mono (h := { h1 with pos := h1.pos + 1 }) e1 (by simp; omega) (by simp; rw [e1]; omega)
          (stateBeforeAttributeValue_ord _ (by simp; rw [e1]; omega))
      · split
        · exact Ord.mono e1 e2 (by omega) (stateTagNameClose_ord h1 (by rw [e1]; exact hlt))
        · exact Ord.mono e1 e2 (by omega) (stateAttributeName_ord h1 (by rw [e1]; exact hlt))

theorem stateAfterAttributeValueQuotedState_ord (h : H) (hp : h.pos ≤ h.s.length) :
    Ord h.pos 1 h (stateAfterAttributeValueQuotedState h) := by
  unfold stateAfterAttributeValueQuotedState
  by_cases hge : h.pos ≥ h.s.length
  · simp only [hge, ↓reduceIte, pure, Except.pure]
    exact ord_false _ _ _ _
  · have hlt : h.pos < h.s.length := by omega
    simp only [hge, ↓reduceIte, at'_ok hlt, bind, Except.bind, pure, Except.pure]
    split
    · exact Ord.mono (h := { h with pos := h.pos + 1 }) rfl (by simp) (by simp; omega) ((sc_ban_ord callDepth).2 _ (by simp; omega))
    · split
      · exact Ord.mono (h := { h with pos := h.pos + 1 }) rfl (by simp) (by simp)
          ((sc_ban_ord callDepth).1 _ (by simp; omega) (by simp))
      · split
        · simp only [offFrom_ok hp, bind, Except.bind, pure, Except.pure]
          fin_ord
        · exact (sc_ban_ord callDepth).2 h hp

theorem data_trio_ord : ∀ (d : Nat),
    (∀ h : H, h.pos ≤ h.s.length → Ord h.pos 2 h (stateEndTagOpen d h)) ∧
    (∀ h : H, h.pos ≤ h.s.length → 1 ≤ h.pos → Ord (h.pos - 1) 1 h (stateTagOpen d h)) ∧
    (∀ h : H, h.pos ≤ h.s.length → Ord h.pos 1 h (stateData d h))
  | 0 => by
    refine ⟨?_, ?_, ?_⟩
    · intro h _ h' hr; cases hr
    · intro h _ _ h' hr; cases hr
    · intro h _ h' hr; cases hr
  | d + 1 => by
    obtain ⟨ihE, ihT, ihD⟩ := data_trio_ord d
    refine ⟨?_, ?_, ?_⟩
    · intro h hp
      unfold stateEndTagOpen
      by_cases hge : h.pos ≥ h.s.length
      · simp only [hge, ↓reduceIte, pure, Except.pure]
        exact ord_false _ _ _ _
      · have hlt : h.pos < h.s.length := by omega
        simp only [hge, ↓reduceIte, at'_ok hlt, bind, Except.bind, pure, Except.pure]
        split
        · exact Ord.mono rfl (Nat.le_refl _) (by omega) (ihD h hp)
        · split
          · exact stateTagName_ord h hlt
          · exact Ord.mono (h := { h with isClose := false }) rfl (Nat.le_refl _) (by simp) (stateBogusComment_ord _ hp)
    · intro h hp h1
      unfold stateTagOpen
      by_cases hge : h.pos ≥ h.s.length
      · simp only [hge, ↓reduceIte, pure, Except.pure]
        exact ord_false _ _ _ _
      · have hlt : h.pos < h.s.length := by omega
        simp only [hge, ↓reduceIte, at'_ok hlt, bind, Except.bind, pure, Except.pure]
        split
        · exact Ord.mono (h := { h with pos := h.pos + 1 }) rfl (by simp; omega) (by simp; omega)
            (stateMarkupDeclarationOpen_ord _ (by simp; omega))
        · split
          · exact Ord.mono (h := { h with pos := h.pos + 1, isClose := true }) rfl (by simp; omega) (by simp; omega)
              (ihE _ (by simp; omega))
          · split
            · exact Ord.mono (h := { h with pos := h.pos + 1 }) rfl (by simp; omega) (by simp; omega)
                (stateBogusComment_ord _ (by simp; omega))
            · split
              · exact Ord.mono (h := { h with pos := h.pos + 1 }) rfl (by simp; omega) (by simp; omega)
                  (stateBogusComment2_ord _ (by simp; omega))
              · split
                · exact Ord.mono rfl (by omega) (by omega) (stateTagName_ord h hlt)
                · split
                  · exact Ord.mono rfl (by omega) (by omega) (stateTagName_ord h hlt)
                  · have h0 : (h.pos == 0) = false := by simp; omega
                    simp only [h0, Bool.false_eq_true, ↓reduceIte]
                    fin_ord
    · intro h hp
      unfold stateData
      simp only [offFrom_ok hp, bind, Except.bind, pure, Except.pure]
      cases hi : indexByte (h.s.drop h.pos) 60 with
      | none =>
        simp only []
        cases hb : (h.s.length - h.pos != 0) with
        | false => exact ord_false _ _ _ _
        | true =>
          have : h.s.length - h.pos ≠ 0 := by simpa using hb
          fin_ord
      | some i =>
        have hlt := indexByte_lt hi
        simp at hlt
        simp only []
        split
        · exact Ord.mono (h := emit h h.pos i .dataText (h.pos + i + 1) .tagOpen) rfl (by simp [emit]) (by simp [emit]; omega)
            (ihT _ (by simp [emit]; omega) (by simp [emit]))
        · rename_i hi0
          have : i ≠ 0 := by simpa using hi0
          fin_ord

/-- **every step of the dispatcher puts its token at or after the state's lower bound, before the next
state's lower bound, and lowers the potential** -/
theorem next_ord (h : H) (hi : Inv h) (h2 : h.state = .tagOpen → 1 ≤ h.pos) :
    Ord (lbN h.s.length h) (cred h.state) h (next h) := by
  obtain ⟨hp, i1, i2, i3⟩ := hi
  unfold next
  cases hs : h.state with
  | eof => exact ord_false _ _ _ _
  | data => simpa [lbN, hs, delta, cred] using (data_trio_ord dataDepth).2.2 h hp
  | tagOpen => simpa [lbN, hs, delta, cred] using (data_trio_ord dataDepth).2.1 h hp (h2 hs)
  | beforeAttrName => simpa [lbN, hs, delta, cred] using (sc_ban_ord callDepth).2 h hp
  | selfClosing => simpa [lbN, hs, delta, cred] using (sc_ban_ord callDepth).1 h hp (i1 hs)
  | tagNameClose => simpa [lbN, hs, delta, cred] using stateTagNameClose_ord h (i2 hs)
  | afterAttrName => simpa [lbN, hs, delta, cred] using stateAfterAttributeName_ord h hp
  | beforeAttrValue => simpa [lbN, hs, delta, cred] using stateBeforeAttributeValue_ord h hp
  | afterAttrValueQuoted => simpa [lbN, hs, delta, cred] using stateAfterAttributeValueQuotedState_ord h hp
  | valSingle => simpa [lbN, hs, delta, cred] using stateAttributeValueQuote_ord 39 h (Or.inr (i3 (Or.inl hs)))
  | valDouble => simpa [lbN, hs, delta, cred] using stateAttributeValueQuote_ord 34 h (Or.inr (i3 (Or.inr (Or.inl hs))))
  | valBack => simpa [lbN, hs, delta, cred] using stateAttributeValueQuote_ord 96 h (Or.inr (i3 (Or.inr (Or.inr hs))))

/-- consecutive tokens do not overlap -/
def Chain : List Tok → Prop
  | [] => True
  | [_] => True
  | a :: b :: t => a.off + a.len ≤ b.off ∧ Chain (b :: t)

theorem tokensLoop_order : ∀ (fuel : Nat) (h : H) (ts : List Tok), Inv h → (h.state = .tagOpen → 1 ≤ h.pos) →
    tokensLoop h fuel = .ok ts →
    ts.length ≤ potN h.s.length h ∧ Chain ts ∧ ∀ t ∈ ts, lbN h.s.length h ≤ t.off
  | 0, _, _, _, _, hr => by cases hr
  | fuel + 1, h, ts, hi, h2, hr => by
    unfold tokensLoop at hr
    obtain ⟨b, h', hn, hs, hrest⟩ := next_spec h hi
    rw [hn] at hr
    simp only [bind, Except.bind, pure, Except.pure] at hr
    cases b with
    | false =>
      simp only [Bool.false_eq_true, ↓reduceIte, Except.ok.injEq] at hr
      subst hr
      exact ⟨Nat.zero_le _, trivial, fun t ht => by cases ht⟩
    | true =>
      simp only [↓reduceIte] at hr
      obtain ⟨_, hinv', _, _⟩ := hrest rfl
      have hok' := next_shok h hi h' hn
      cases hrec : tokensLoop h' fuel with
      | error e => rw [hrec] at hr; cases hr
      | ok rest =>
        rw [hrec] at hr
        simp only [Except.ok.injEq] at hr
        subst hr
        obtain ⟨r1, r2, r3⟩ := tokensLoop_order fuel h' rest hinv' hok'.2.1 hrec
        rw [hs] at r1 r3
        obtain ⟨o1, o2, o3⟩ := next_ord h hi h2 h' hn
        have hpot : potN h.s.length h = h.s.length - lbN h.s.length h + cred h.state := rfl
        refine ⟨by simp only [List.length_cons]; omega, ?_, ?_⟩
        · cases rest with
          | nil => trivial
          | cons t1 rest' =>
            have := r3 t1 (by simp)
            exact ⟨by show h'.tokStart + h'.tokLen ≤ t1.off; omega, r2⟩
        · intro t ht
          rcases List.mem_cons.mp ht with rfl | ht
          · exact o1
          · have := r3 t ht
            omega

theorem chain_index : ∀ (ts : List Tok), Chain ts → ∀ i, ∀ hi : i + 1 < ts.length, ts[i].off + ts[i].len ≤ ts[i + 1].off
  | [], _, i, hi => by simp at hi
  | [_], _, i, hi => by simp at hi
  | a :: b :: t, hc, 0, _ => hc.1
  | a :: b :: t, hc, i + 1, hi => by
    have := chain_index (b :: t) hc.2 i (by simp at hi ⊢; omega)
    simpa using this

/-- **C17, order and count**: from every start context at most `|s|+1` tokens, in non-decreasing,
non-overlapping order -/
theorem tokens_order_count (s : Bytes) (ctx : Nat) (ts : List Tok) (h : tokens s ctx = .ok ts) :
    ts.length ≤ s.length + 1 ∧ ∀ i, ∀ hi : i + 1 < ts.length, ts[i].off + ts[i].len ≤ ts[i + 1].off := by
  unfold tokens at h
  have hst : (init s ctx).state ≠ .tagOpen ∧ (init s ctx).state ≠ .eof ∧ (init s ctx).state ≠ .selfClosing ∧
      (init s ctx).state ≠ .beforeAttrValue ∧ (init s ctx).pos = 0 := by
    unfold init
    refine ⟨?_, ?_, ?_, ?_, rfl⟩ <;> (simp only []; split <;> simp)
  obtain ⟨r1, r2, _⟩ := tokensLoop_order _ (init s ctx) ts (init_inv s ctx) (fun h => absurd h hst.1) h
  refine ⟨?_, chain_index ts r2⟩
  have hpot : potN s.length (init s ctx) = s.length + 1 := by
    have hlb : lbN s.length (init s ctx) = 0 := by
      unfold lbN
      rw [if_neg hst.2.1, hst.2.2.2.2]
      simp
    have hc : cred (init s ctx).state = 1 := by
      cases hs : (init s ctx).state <;> first | rfl | exact absurd hs hst.2.1 | exact absurd hs hst.2.2.2.1
    unfold potN
    rw [hlb, hc]
    omega
  have : (init s ctx).s = s := rfl
  rw [this, hpot] at r1
  exact r1

end LibInj.H5
