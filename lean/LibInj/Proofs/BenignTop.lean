import LibInj.Proofs.BenignLex
import LibInj.Proofs.FpTable
set_option linter.unusedSimpArgs false
set_option linter.unusedVariables false
/-! C14: a text of good words and unsigned integers is never reported as SQLi. -/
namespace LibInj.Sqli
open LibInj LibInj.Tables

/-- the invariant of `fold`'s main loop on such a text -/
def TInv (f : FS) : Prop := FInv f ∧ BInv f ∧ ScanOK f.s

theorem foldSpecial_fields (f f' : FS) (h : foldSpecial f = .ok f') :
    f'.s.flags = f.s.flags ∧ f'.s.ddx = f.s.ddx ∧ f'.s.hash = f.s.hash := by
  unfold foldSpecial at h
  by_cases hp : f.pos ≥ maxTokens
  · simp only [hp, ↓reduceIte, bind, Except.bind, pure, Except.pure] at h
    cases hb : special5 f.s with
    | error e => simp [hb] at h
    | ok b =>
      simp only [hb] at h
      cases b with
      | false => simp only [Bool.false_eq_true, ↓reduceIte, Except.ok.injEq] at h; rw [← h]; exact ⟨rfl, rfl, rfl⟩
      | true =>
        simp only [↓reduceIte] at h
        by_cases hp' : f.pos > maxTokens
        · simp only [hp', ↓reduceIte] at h
          cases h5 : tvGet f.s 5 with
          | error e => simp [h5] at h
          | ok t5 =>
            simp only [h5] at h
            cases hs : tvSet f.s 1 t5 with
            | error e => simp [hs] at h
            | ok s' =>
              simp only [hs, Except.ok.injEq] at h
              rw [← h, tvSet_eq hs]; exact ⟨rfl, rfl, rfl⟩
        · simp only [hp', ↓reduceIte, Except.ok.injEq] at h; rw [← h]; exact ⟨rfl, rfl, rfl⟩
  · simp only [hp, ↓reduceIte, pure, Except.pure, Except.ok.injEq] at h; rw [← h]; exact ⟨rfl, rfl, rfl⟩

theorem tinv_special (f f' : FS) (hp : TInv f) (h : foldSpecial f = .ok f') : TInv f' := by
  obtain ⟨hf, hb, hs⟩ := hp
  obtain ⟨f'', h', hf', hev, _, hmem⟩ := foldSpecial_ok' f hf
  rw [h] at h'
  have e : f' = f'' := Except.ok.inj h'
  subst e
  obtain ⟨e1, e2, e3⟩ := foldSpecial_fields f f' h
  obtain ⟨i1, i2, _, i4, _, _⟩ := hev
  refine ⟨hf', ⟨fun t ht => hb.1 t (hmem t ht), by rw [i4]; exact hb.2⟩, hf'.1.1, hf'.1.2.1, ?_, by rw [e1]; exact hs.2.2.2.1,
    by rw [e2]; exact hs.2.2.2.2.1, by rw [e3]; exact hs.2.2.2.2.2⟩
  rw [i1, i2]; exact hs.2.2.1

theorem tinv_fetch (f : FS) (k : Nat) (f' : FS) (hp : TInv f) (h : fetch f k (fetchFuel f.s.input.length) = .ok f') :
    TInv f' := by
  obtain ⟨hf, hb, hs⟩ := hp
  obtain ⟨f'', h', hf', _⟩ := fetch_ok' k _ f hf (fetch_fuel_ok f)
  rw [h] at h'
  have e : f' = f'' := Except.ok.inj h'
  subst e
  obtain ⟨a, b⟩ := fetch_txt k _ f f' hs hb h
  exact ⟨hf', b, a⟩

/-- the leading skip loop on the text -/
theorem skipLoop_txt (fuel : Nat) : ∀ (s : State) (more : Bool) (s' : State), ScanOK s → s.cur = 0 →
    (∀ t ∈ s.tv, BenignTok t) → skipLoop s fuel = .ok (more, s') → ScanOK s' ∧ (∀ t ∈ s'.tv, BenignTok t) := by
  induction fuel with
  | zero => intro s more s' _ _ _ h; simp [skipLoop] at h
  | succ fuel ih =>
    intro s more s' hs hc hb h
    unfold skipLoop at h
    obtain ⟨m1, s1, hr, hs1, hcur, _, hmem, _⟩ := tokenize_scan s hs (by omega)
    simp only [hr, bind, Except.bind, pure, Except.pure] at h
    have hb1 : ∀ t ∈ s1.tv, BenignTok t := by
      intro t ht
      rcases hmem t ht with h' | h'
      · exact hb t h'
      · exact h'
    cases m1 with
    | false =>
      simp only [Bool.not_false, ↓reduceIte, Except.ok.injEq, Prod.mk.injEq] at h
      rw [← h.2]; exact ⟨hs1, hb1⟩
    | true =>
      simp only [Bool.not_true, Bool.false_eq_true, ↓reduceIte] at h
      cases hg : tvGet s1 s1.cur with
      | error e => simp [hg] at h
      | ok t =>
        simp only [hg] at h
        cases hq : (g (t.cat == 99 || t.cat == 40 || t.cat == 116) <||> t.isUnaryOp) with
        | error e => simp [hq] at h
        | ok b =>
          simp only [hq] at h
          cases b with
          | false =>
            simp only [Bool.not_false, ↓reduceIte, Except.ok.injEq, Prod.mk.injEq] at h
            rw [← h.2]; exact ⟨hs1, hb1⟩
          | true =>
            simp only [Bool.not_true, Bool.false_eq_true, ↓reduceIte] at h
            exact ih s1 more s' hs1 (by rw [hcur]; exact hc) hb1 h

/-- **`fold` on the text**: at most five tokens, all benign; no `#`/`--` comment was counted -/
theorem fold_txt (input : Bytes) (flags : Nat) (hq : NoQ (sqliInit input flags).flags) (htxt : Txt input) :
    ∃ n s', fold (sqliInit input flags) = .ok (n, s') ∧ n ≤ 5 ∧ SInv s' ∧ (∀ t ∈ s'.tv, BenignTok t) ∧
      s'.ddx = 0 ∧ s'.hash = 0 ∧ s'.input = input := by
  obtain ⟨n, s', h, hs', hin, _, _⟩ := fold_ok (sqliInit input flags) (sinv_init input flags) (init_empty input flags)
  have hscan0 : ScanOK ({ sqliInit input flags with cur := 0 } : State) :=
    ⟨by simp [sqliInit], Nat.zero_le _, by simpa [sqliInit] using htxt, hq, rfl, rfl⟩
  have hb0 : ∀ t ∈ ({ sqliInit input flags with cur := 0 } : State).tv, BenignTok t := by
    intro t ht
    simp only [sqliInit, List.mem_replicate] at ht
    rw [ht.2]; exact Or.inl rfl
  refine ⟨n, s', h, ?_⟩
  unfold fold at h
  simp only [bind, Except.bind, pure, Except.pure] at h
  cases hsk : skipLoop { sqliInit input flags with cur := 0 } ((sqliInit input flags).input.length + 2) with
  | error e => simp [hsk] at h
  | ok r =>
    obtain ⟨more, s1⟩ := r
    obtain ⟨hsc1, hb1⟩ := skipLoop_txt _ _ more s1 hscan0 rfl hb0 hsk
    simp only [hsk] at h
    cases more with
    | false =>
      simp only [Bool.not_false, ↓reduceIte, Except.ok.injEq, Prod.mk.injEq] at h
      obtain ⟨hn, hse⟩ := h
      subst hse; subst hn
      exact ⟨by omega, hs', hb1, hsc1.2.2.2.2.1, hsc1.2.2.2.2.2, hin⟩
    | true =>
      simp only [Bool.not_true, Bool.false_eq_true, ↓reduceIte] at h
      cases hl : foldLoop { s := s1, pos := 1, left := 0, more := true, lastComment := {} } (foldFuel s1.input.length) with
      | error e => simp [hl] at h
      | ok r2 =>
        obtain ⟨n2, f2⟩ := r2
        simp only [hl, Except.ok.injEq, Prod.mk.injEq] at h
        obtain ⟨hn, hse⟩ := h
        have hsinv1 : SInv s1 := by
          obtain ⟨m', s1', h1', hs1', _⟩ := skipLoop_ok ((sqliInit input flags).input.length + 2) { sqliInit input flags with cur := 0 }
            ⟨(sinv_init input flags).1, (sinv_init input flags).2.1, (sinv_init input flags).2.2⟩ rfl (init_empty input flags)
            (by show (sqliInit input flags).input.length - 0 + 1 < _; omega)
          rw [hsk] at h1'
          have : s1 = s1' := by cases h1'; rfl
          rw [this]; exact hs1'
        have ht0 : TInv { s := s1, pos := 1, left := 0, more := true, lastComment := {} } :=
          ⟨⟨hsinv1, Nat.zero_le _, by show 1 ≤ 6; omega, tokF_default⟩, ⟨hb1, Or.inl rfl⟩, hsc1⟩
        obtain ⟨⟨_, hbf, hscf⟩, hn5⟩ := foldLoop_benign TInv (fun f h => ⟨h.1, h.2.1⟩)
          (fun f pos left h hfi => ⟨hfi, h.2.1, h.2.2⟩) tinv_special tinv_fetch _ _ n2 f2 ht0 hl
        subst hse; subst hn
        exact ⟨hn5, hs', hbf.1, hscf.2.2.2.2.1, hscf.2.2.2.2.2, hin⟩

theorem buildFp_some (s : State) (hs : SInvW s) (length : Nat) (hl : length ≤ 8) (h88 : ∀ t ∈ s.tv, t.cat ≠ 88) :
    ∀ (fuel i : Nat) (acc : Bytes), length ≤ i + fuel →
      buildFp s length i acc fuel = .ok (some (acc ++ ((s.tv.drop i).take (length - i)).map (·.cat))) := by
  intro fuel i acc hle
  rcases buildFp_ok s hs length hl fuel i acc hle with h | h
  · exfalso
    -- `none` needs an evil token
    revert h
    induction fuel generalizing i acc with
    | zero => intro h; simp [buildFp] at h
    | succ fuel ih =>
      intro h
      unfold buildFp at h
      by_cases hi : i < length
      · obtain ⟨t, ht, _, hget⟩ := tvGetW s hs i (by omega)
        simp only [hi, ↓reduceIte, ht, bind, Except.bind, pure, Except.pure] at h
        have hne : (t.cat == 88) = false := by
          have := h88 t (List.mem_of_getElem? hget)
          simpa using this
        simp only [hne, Bool.false_eq_true, ↓reduceIte] at h
        exact ih (i + 1) (acc ++ [t.cat]) (by omega) h
      · simp only [hi, ↓reduceIte, pure, Except.pure] at h
        cases h
  · exact h

/-- **the fingerprint of such a text** is made of `1` and `n` (and possibly empty slots), nothing was
counted as a `#`/`--` comment -/
theorem fingerprint_txt (input : Bytes) (flags : Nat) (hq : NoQ (sqliInit input flags).flags) (htxt : Txt input) :
    ∃ st, fingerprint input flags = .ok st ∧ (∀ c ∈ st.fingerprint, c = 0 ∨ c = 49 ∨ c = 110 ∨ c = 118 ∨ c = 44 ∨ c = 63 ∨ c = 58) ∧
      st.ddx = 0 ∧ st.hash = 0 := by
  obtain ⟨n, s', hfold, hn5, hs', hb, hd, hh, _⟩ := fold_txt input flags hq htxt
  unfold fingerprint
  simp only [hfold, bind, Except.bind, pure, Except.pure]
  have hre : recatLast s' n = .ok s' := by
    unfold recatLast
    by_cases hn2 : n > 2
    · rw [if_pos hn2]
      obtain ⟨t, ht, _, hget⟩ := tvGetW s' hs'.weak (n - 1) (by omega)
      simp only [ht, bind, Except.bind, pure, Except.pure]
      have hbt := hb t (List.mem_of_getElem? hget)
      have : (t.cat == 110 && t.strOpen == 96 && t.len == 0 && t.strClose == 0) = false := by
        rcases hbt with e | e | e | e | e | e | e
        · simp [e]
        · simp [e]
        · have : (t.len == 0) = false := by simp; omega
          simp [this]
        · simp [e]
        · simp [e]
        · simp [e]
        · simp [e]
      simp only [this, Bool.false_eq_true, ↓reduceIte]
    · rw [if_neg hn2]; rfl
  rw [hre]
  simp only []
  have h88 : ∀ t ∈ s'.tv, t.cat ≠ 88 := by
    intro t ht
    rcases (hb t ht).cats with e | e | e | e | e | e | e <;> (rw [e]; decide)
  rw [buildFp_some s' hs'.weak n (by omega) h88 8 0 [] (by omega)]
  simp only []
  refine ⟨_, rfl, ?_, hd, hh⟩
  intro c hc
  simp only [List.nil_append, List.drop_zero, Nat.sub_zero, List.mem_map] at hc
  obtain ⟨t, ht, rfl⟩ := hc
  exact (hb t (List.mem_of_mem_take ht)).cats

/-- one as-is reading of such a text: not SQLi, and no re-parse as MySQL is requested -/
theorem pass_txt (input : Bytes) (flags : Nat) (hq : NoQ (sqliInit input flags).flags) (htxt : Txt input) :
    ∃ fp, pass input flags = .ok (false, fp, false) := by
  obtain ⟨st, hfp, hcats, hd, hh⟩ := fingerprint_txt input flags hq htxt
  unfold pass
  simp only [hfp, bind, Except.bind, pure, Except.pure]
  have hbl : blacklist st = false := by
    unfold blacklist
    by_cases hl : st.fingerprint.length < 1
    · simp [hl]
    · simp only [hl, ↓reduceIte]
      have := n1_not_blacklisted st.fingerprint hcats
      simpa using this
  have hck : checkFingerprint st = .ok false := by
    unfold checkFingerprint
    simp only [hbl, Bool.false_eq_true, ↓reduceIte, pure, Except.pure]
  have hrp : reparseAsMySQL st = false := by
    unfold reparseAsMySQL; simp [hd, hh]
  simp only [hck, hrp]
  exact ⟨_, rfl⟩

theorem txt_bytes : ∀ {r : Bytes}, Txt r → ∀ c ∈ r, isWordByteB c = true ∨ isSepByte c = true ∨ c = 46 ∨ c = 43 ∨ c = 45
  | _, .nil, c, hc => by cases hc
  | _, .space hr, c, hc => by
    rcases List.mem_cons.mp hc with rfl | h
    · exact Or.inr (Or.inl rfl)
    · exact txt_bytes hr c h
  | _, .numAt (w := w) hw _ hr, c, hc => by
    rcases List.mem_append.mp hc with h | h
    · have := List.all_eq_true.mp hw.2 c h
      exact Or.inl (by simp [isWordByteB, this])
    · exact txt_bytes hr c h
  | _, .punct hp hr, c, hc => by
    rcases List.mem_cons.mp hc with rfl | h
    · rcases hp with rfl | rfl <;> exact Or.inr (Or.inl rfl)
    · exact txt_bytes hr c h
  | _, .colon hr, c, hc => by
    rcases List.mem_cons.mp hc with rfl | h
    · exact Or.inr (Or.inl rfl)
    · rcases List.mem_cons.mp h with rfl | h
      · exact Or.inr (Or.inl rfl)
      · exact txt_bytes hr c h
  | _, .wordAt (w := w) hw _ hr, c, hc => by
    rcases List.mem_append.mp hc with h | h
    · exact Or.inl (List.all_eq_true.mp (goodWord_bytes hw).1 c h)
    · exact txt_bytes hr c h
  | _, .dec (w := w) hw _ hr, c, hc => by
    rcases List.mem_append.mp hc with h | h
    · obtain ⟨d1, d2, rfl, ⟨_, hall1⟩, hall2⟩ := hw
      rcases List.mem_append.mp h with h | h
      · have := List.all_eq_true.mp hall1 c h
        exact Or.inl (by simp [isWordByteB, this])
      · rcases List.mem_cons.mp h with rfl | h
        · exact Or.inr (Or.inr (Or.inl rfl))
        · have := List.all_eq_true.mp hall2 c h
          exact Or.inl (by simp [isWordByteB, this])
    · exact txt_bytes hr c h
  | _, .sci (w := w) hw _ hr, c, hc => by
    rcases List.mem_append.mp hc with h | h
    · obtain ⟨m, x, e, sg, rfl, ⟨_, hallm⟩, ⟨_, hallx⟩, he, hs⟩ := hw
      rcases List.mem_append.mp h with h | h
      · have := List.all_eq_true.mp hallm c h
        exact Or.inl (by simp [isWordByteB, this])
      · rcases List.mem_cons.mp h with rfl | h
        · rcases he with rfl | rfl <;> exact Or.inl (by decide)
        · rcases List.mem_append.mp h with h | h
          · rcases hs with rfl | rfl | rfl
            · cases h
            · have : c = 43 := by simpa using h
              exact Or.inr (Or.inr (Or.inr (Or.inl this)))
            · have : c = 45 := by simpa using h
              exact Or.inr (Or.inr (Or.inr (Or.inr this)))
          · have := List.all_eq_true.mp hallx c h
            exact Or.inl (by simp [isWordByteB, this])
    · exact txt_bytes hr c h
  | _, .dotted (w := w) hw _ hr, c, hc => by
    rcases List.mem_append.mp hc with h | h
    · rcases (dotted_bytes hw).1 c h with h' | h'
      · exact Or.inl h'
      · exact Or.inr (Or.inr (Or.inl h'))
    · exact txt_bytes hr c h
  | _, .dottedAt (w := w) hw _ hr, c, hc => by
    rcases List.mem_append.mp hc with h | h
    · rcases (dotted_bytes hw).1 c h with h' | h'
      · exact Or.inl h'
      · exact Or.inr (Or.inr (Or.inl h'))
    · exact txt_bytes hr c h
  | _, .var (vw := vw) hv _ hr, c, hc => by
    rcases List.mem_cons.mp hc with rfl | h
    · exact Or.inr (Or.inl rfl)
    · rcases List.mem_append.mp h with h | h
      · have := List.all_eq_true.mp (varBody_bytes hv).1 c h
        unfold isVarBodyByte at this
        simp only [Bool.or_eq_true, beq_iff_eq] at this
        rcases this with h' | h'
        · exact Or.inl h'
        · exact Or.inr (Or.inr (Or.inl h'))
      · exact txt_bytes hr c h
  | _, .word (w := w) hw _ hr, c, hc => by
    rcases List.mem_append.mp hc with h | h
    · left
      rcases hw with hw | hw
      · exact List.all_eq_true.mp (goodWord_bytes hw).1 c h
      · have := List.all_eq_true.mp hw.2 c h
        simp [isWordByteB, this]
    · exact txt_bytes hr c h

/-- **C14 on the model: a text of good words and unsigned integers is never reported as SQLi.** -/
theorem isSQLi_txt (input : Bytes) (htxt : Txt input) : isSQLi input = .ok (false, []) := by
  unfold isSQLi
  by_cases he : (input.length == 0) = true
  · simp [he, pure, Except.pure]
  · simp only [he, Bool.false_eq_true, ↓reduceIte, bind, Except.bind, pure, Except.pure]
    obtain ⟨fp, hp⟩ := pass_txt input (flagQuoteNone ||| flagAnsi) (show (hasFlag 9 flagQuoteSingle || hasFlag 9 flagQuoteDouble) = false by decide) htxt
    have hnoq : ∀ q : UInt8, q = 39 ∨ q = 34 → (indexByte input q).isSome = false := by
      intro q hq
      have : indexByte input q = none := by
        rw [indexByte_none_iff]
        intro hm
        rcases txt_bytes htxt q hm with h | h | h | h | h
        · have := wordByte_facts q h
          rcases hq with rfl | rfl
          · exact this.2.2.2.1 rfl
          · revert h; decide
        · rcases hq with rfl | rfl <;> revert h <;> decide
        · rcases hq with rfl | rfl <;> cases h
        · rcases hq with rfl | rfl <;> cases h
        · rcases hq with rfl | rfl <;> cases h
      simp [this]
    simp only [hp, Bool.false_eq_true, ↓reduceIte, gated, noPass, hnoq 39 (Or.inl rfl), hnoq 34 (Or.inr rfl),
      Bool.false_and, pure, Except.pure]

end LibInj.Sqli
