import LibInj.Proofs.GrammarBase
import LibInj.Spec.SqliGrammar2
namespace LibInj.Sqli
open LibInj LibInj.Spec.SqliGrammar

/-- the `k`-th parenthesis-closing skeleton -/
def pskel (k : Nat) : List Bytes := (parenSkeletons[k]?).getD []

end LibInj.Sqli
