import LibInj.Proofs.H5Case
import LibInj.Proofs.SchemeEnc
import LibInj.Proofs.XssTotal
set_option linter.unusedSimpArgs false
set_option linter.unusedVariables false
/-! C11: the classifiers, the character-reference decoder, the URL matcher and the `isXSS` loop are
blind to ASCII letter case. -/
namespace LibInj.Xss
open LibInj LibInj.H5

theorem caseEq_L (t : Bytes) : CaseEq (L t) t := by
  unfold CaseEq L
  simp [List.map_map, Function.comp_def, lower_idem]

theorem isBlackTag_L (t : Bytes) : isBlackTag (L t) = isBlackTag t := by
  unfold isBlackTag
  rw [CaseEq.length (caseEq_L t), goUpper_case_invariant _ _ (stripNul_caseEq _ _ (caseEq_L t))]

theorem isBlackAttr_L (t : Bytes) : isBlackAttr (L t) = isBlackAttr t := by
  unfold isBlackAttr
  rw [goUpper_case_invariant _ _ (stripNul_caseEq _ _ (caseEq_L t))]

/-! ## the decoder -/

theorem hexDec_lower (c : UInt8) : hexDec (lowerAscii c) = hexDec c := by
  rw [hexDec_eq, hexDec_eq]
  have := forall_byte (fun c => hexValN (lowerAscii c) == hexValN c) (by decide +kernel) c
  simp only [beq_iff_eq] at this
  rw [this]

theorem decHexLoop_L (s : Bytes) : ∀ (fuel val i : Nat), decHexLoop (L s) val i fuel = decHexLoop s val i fuel := by
  intro fuel
  induction fuel with
  | zero => intro val i; rfl
  | succ fuel ih =>
    intro val i
    unfold decHexLoop
    simp only [L_length, at'_L]
    split
    · cases hc : at' s i with
      | error e => rfl
      | ok c =>
        simp only [Except.map, bind, Except.bind, nl 59 (by decide), hexDec_lower]
        split
        · rfl
        · cases hexDec c with
          | error e => rfl
          | ok d =>
            simp only []
            split
            · rfl
            · split
              · rfl
              · exact ih _ _
    · rfl

theorem digit_lower (c : UInt8) : (lowerAscii c < 48 || lowerAscii c > 57) = (c < 48 || c > 57) ∧
    ((c < 48 || c > 57) = false → lowerAscii c = c) := by
  have := forall_byte (fun c => ((decide (lowerAscii c < 48) || decide (lowerAscii c > 57)) == (decide (c < 48) || decide (c > 57))) &&
    ((decide (c < 48) || decide (c > 57)) || lowerAscii c == c)) (by decide +kernel) c
  simp only [Bool.and_eq_true, beq_iff_eq, Bool.or_eq_true] at this
  refine ⟨this.1, fun h => ?_⟩
  rcases this.2 with h' | h'
  · simp only [Bool.or_eq_false_iff] at h
    rcases h' with h' | h'
    · rw [h.1] at h'; cases h'
    · rw [h.2] at h'; cases h'
  · exact h'

theorem decDecLoop_L (s : Bytes) : ∀ (fuel val i : Nat), decDecLoop (L s) val i fuel = decDecLoop s val i fuel := by
  intro fuel
  induction fuel with
  | zero => intro val i; rfl
  | succ fuel ih =>
    intro val i
    unfold decDecLoop
    simp only [L_length, at'_L]
    split
    · cases hc : at' s i with
      | error e => rfl
      | ok c =>
        simp only [Except.map, bind, Except.bind, nl 59 (by decide), (digit_lower c).1]
        split
        · rfl
        · by_cases hd : (c < 48 || c > 57) = true
          · simp only [hd, ↓reduceIte]
          · have hd' : (c < 48 || c > 57) = false := by simpa using hd
            simp only [hd', Bool.false_eq_true, ↓reduceIte, (digit_lower c).2 hd']
            split
            · rfl
            · exact ih _ _
    · rfl

/-- decoded values of the two spellings: equal, or a literal letter in its two cases -/
def ValRel (v v' : Int) : Prop := v' = v ∨ ∃ x : UInt8, v = x.toNat ∧ v' = (lowerAscii x).toNat

/-- **the decoder on the lower-cased input**: same number of bytes consumed, related value -/
theorem htmlDecodeByteAt_L (s : Bytes) :
    (∃ e, htmlDecodeByteAt s = .error e ∧ htmlDecodeByteAt (L s) = .error e) ∨
    (∃ v v' c, htmlDecodeByteAt s = .ok (v, c) ∧ htmlDecodeByteAt (L s) = .ok (v', c) ∧ ValRel v v') := by
  unfold htmlDecodeByteAt
  simp only [L_length, at'_L]
  by_cases h0 : (s.length == 0) = true
  · simp only [h0, ↓reduceIte, pure, Except.pure]
    exact Or.inr ⟨_, _, _, rfl, rfl, Or.inl rfl⟩
  simp only [h0, Bool.false_eq_true, ↓reduceIte, bind, Except.bind, pure, Except.pure]
  cases hc0 : at' s 0 with
  | error e => exact Or.inl ⟨e, rfl, rfl⟩
  | ok c0 =>
    simp only [Except.map, nl_ne 38 (by decide)]
    by_cases h1 : (c0 != 38 || decide (s.length < 2)) = true
    · simp only [h1, ↓reduceIte]
      exact Or.inr ⟨_, _, _, rfl, rfl, Or.inr ⟨c0, rfl, rfl⟩⟩
    simp only [h1, Bool.false_eq_true, ↓reduceIte]
    cases hc1 : at' s 1 with
    | error e => exact Or.inl ⟨e, rfl, rfl⟩
    | ok c1 =>
      simp only [nl_ne 35 (by decide)]
      by_cases h2 : (c1 != 35 || decide (s.length < 3)) = true
      · simp only [h2, ↓reduceIte]
        exact Or.inr ⟨_, _, _, rfl, rfl, Or.inl rfl⟩
      simp only [h2, Bool.false_eq_true, ↓reduceIte]
      cases hc2 : at' s 2 with
      | error e => exact Or.inl ⟨e, rfl, rfl⟩
      | ok c2 =>
        have hx : (lowerAscii c2 == 120 || lowerAscii c2 == 88) = (c2 == 120 || c2 == 88) := by
          have := forall_byte (fun c => (lowerAscii c == 120 || lowerAscii c == 88) == (c == 120 || c == 88)) (by decide +kernel) c2
          simpa using this
        simp only [hx]
        by_cases h3 : (c2 == 120 || c2 == 88) = true
        · simp only [h3, ↓reduceIte]
          split
          · exact Or.inr ⟨_, _, _, rfl, rfl, Or.inl rfl⟩
          · cases hc3 : at' s 3 with
            | error e => exact Or.inl ⟨e, rfl, rfl⟩
            | ok c3 =>
              simp only [hexDec_lower]
              cases hexDec c3 with
              | error e => exact Or.inl ⟨e, rfl, rfl⟩
              | ok d =>
                simp only []
                split
                · exact Or.inr ⟨_, _, _, rfl, rfl, Or.inl rfl⟩
                · rw [decHexLoop_L]
                  cases hl : decHexLoop s d 4 (s.length + 1) with
                  | error e => exact Or.inl ⟨e, rfl, rfl⟩
                  | ok r => exact Or.inr ⟨r.1, r.1, r.2, rfl, rfl, Or.inl rfl⟩
        · simp only [h3, Bool.false_eq_true, ↓reduceIte, (digit_lower c2).1]
          by_cases hd : (c2 < 48 || c2 > 57) = true
          · simp only [hd, ↓reduceIte]
            exact Or.inr ⟨_, _, _, rfl, rfl, Or.inl rfl⟩
          · have hd' : (c2 < 48 || c2 > 57) = false := by simpa using hd
            simp only [hd', Bool.false_eq_true, ↓reduceIte, (digit_lower c2).2 hd', decDecLoop_L]
            cases hl : decDecLoop s (c2.toNat - 48) 3 (s.length + 1) with
            | error e => exact Or.inl ⟨e, rfl, rfl⟩
            | ok r => exact Or.inr ⟨r.1, r.1, r.2, rfl, rfl, Or.inl rfl⟩

theorem valRel_facts (v v' : Int) (h : ValRel v v') :
    (decide (v' ≤ 32)) = (decide (v ≤ 32)) ∧ ((v' == 0 || v' == 10) = (v == 0 || v == 10)) ∧
    UInt8.ofNat ((if (decide (v' ≥ 97) && decide (v' ≤ 122)) = true then v' - 32 else v').toNat % 256) =
      UInt8.ofNat ((if (decide (v ≥ 97) && decide (v ≤ 122)) = true then v - 32 else v).toNat % 256) := by
  rcases h with rfl | ⟨x, rfl, rfl⟩
  · exact ⟨rfl, rfl, rfl⟩
  · have := forall_byte (fun x =>
      (decide (((lowerAscii x).toNat : Int) ≤ 32) == decide ((x.toNat : Int) ≤ 32)) &&
      ((((lowerAscii x).toNat : Int) == 0 || ((lowerAscii x).toNat : Int) == 10) == (((x.toNat : Int) == 0 || (x.toNat : Int) == 10))) &&
      (UInt8.ofNat ((if (decide (((lowerAscii x).toNat : Int) ≥ 97) && decide (((lowerAscii x).toNat : Int) ≤ 122)) = true
          then ((lowerAscii x).toNat : Int) - 32 else ((lowerAscii x).toNat : Int)).toNat % 256) ==
       UInt8.ofNat ((if (decide ((x.toNat : Int) ≥ 97) && decide ((x.toNat : Int) ≤ 122)) = true
          then (x.toNat : Int) - 32 else (x.toNat : Int)).toNat % 256))) (by decide +kernel) x
    have t1 := (Bool.and_eq_true _ _ ▸ this).1
    have t2 := (Bool.and_eq_true _ _ ▸ this).2
    have t11 := (Bool.and_eq_true _ _ ▸ t1).1
    have t12 := (Bool.and_eq_true _ _ ▸ t1).2
    exact ⟨by simpa using t11, by simpa using t12, by simpa using t2⟩

theorem startsLoop_L : ∀ (fuel : Nat) (b : Bytes) (first : Bool) (acc : Bytes),
    startsLoop (L b) first acc fuel = startsLoop b first acc fuel := by
  intro fuel
  induction fuel with
  | zero => intro b first acc; rfl
  | succ fuel ih =>
    intro b first acc
    unfold startsLoop
    simp only [L_length]
    split
    · rcases htmlDecodeByteAt_L b with ⟨e, h1, h2⟩ | ⟨v, v', c, h1, h2, hrel⟩
      · simp only [h1, h2, bind, Except.bind]
      · obtain ⟨f1, f2, f3⟩ := valRel_facts v v' hrel
        simp only [h1, h2, bind, Except.bind, pure, Except.pure, L_drop]
        by_cases hc : c ≤ b.length
        · simp only [hc, ↓reduceIte, f1, f2, f3]
          split
          · exact ih _ _ _
          · split
            · exact ih _ _ _
            · exact ih _ _ _
        · simp only [hc, ↓reduceIte]
    · rfl

theorem urlJunk_lower (x : UInt8) : urlJunk (lowerAscii x) = urlJunk x := by
  have := forall_byte (fun x => urlJunk (lowerAscii x) == urlJunk x) (by decide +kernel) x; simpa using this

theorem dropWhile_L : ∀ (t : Bytes), (L t).dropWhile urlJunk = L (t.dropWhile urlJunk)
  | [] => rfl
  | x :: xs => by
    simp only [L, List.map_cons, List.dropWhile_cons, urlJunk_lower]
    split
    · exact dropWhile_L xs
    · rfl

theorem anyStarts_L (str : Bytes) : ∀ (us : List Bytes), anyStarts (L str) us = anyStarts str us
  | [] => rfl
  | u :: us => by
    unfold anyStarts htmlEncodeStartsWith
    simp only [L_length, startsLoop_L, anyStarts_L str us]

/-- **the URL matcher is blind to letter case** -/
theorem isBlackURL_L (t : Bytes) : isBlackURL (L t) = isBlackURL t := by
  unfold isBlackURL
  rw [dropWhile_L, anyStarts_L]

theorem slice_L (s : Bytes) (a b : Nat) : slice (L s) a b = (slice s a b).map L := by
  unfold slice
  simp only [L_length]
  split
  · show Except.ok (((L s).drop a).take (b - a)) = Except.ok (L ((s.drop a).take (b - a)))
    rw [L_drop, L_take]
  · rfl

theorem contains96_L : ∀ (t : Bytes), (L t).contains 96 = t.contains 96
  | [] => rfl
  | x :: xs => by
    simp only [L, List.map_cons, List.contains_cons]
    rw [show xs.map lowerAscii = L xs from rfl, contains96_L xs]
    have := nl 96 (by decide) x
    rw [Bool.beq_comm (a := (96 : UInt8)), Bool.beq_comm (a := (96 : UInt8)), this]

theorem goUpper_L (t : Bytes) : goUpper (L t) = goUpper t := goUpper_case_invariant _ _ (caseEq_L t)
theorem stripNul_L (t : Bytes) : goUpper (stripNul (L t)) = goUpper (stripNul t) :=
  goUpper_case_invariant _ _ (stripNul_caseEq _ _ (caseEq_L t))

theorem commentIsXSS_L (h : H) : commentIsXSS (lowerH h) = commentIsXSS h := by
  unfold commentIsXSS
  simp only [lowerH_s, slice_L, offFrom_L, L_drop]
  have hts : (lowerH h).tokStart = h.tokStart := rfl
  have htl : (lowerH h).tokLen = h.tokLen := rfl
  simp only [hts, htl]
  cases slice h.s h.tokStart (h.tokStart + h.tokLen) with
  | error e => rfl
  | ok t =>
    simp only [Except.map, bind, Except.bind, pure, Except.pure, contains96_L]
    split
    · rfl
    · cases offFrom h.s h.tokStart with
      | error e => rfl
      | ok start =>
        simp only [at'_L, slice_L]
        split
        · cases at' (h.s.drop start) 0 with
          | error e => rfl
          | ok c =>
            simp only [Except.map]
            cases slice (h.s.drop start) 1 3 with
            | error e => rfl
            | ok v1 =>
              simp only [goUpper_L, nl 91 (by decide)]
              split
              · rfl
              · cases slice (h.s.drop start) 0 3 with
                | error e => rfl
                | ok v2 =>
                  simp only [goUpper_L]
                  split
                  · rfl
                  · (split
                     · cases slice (h.s.drop start) 0 6 with
                       | error e => rfl
                       | ok v => simp only [stripNul_L]
                     · rfl)
        · (split
           · cases slice (h.s.drop start) 0 6 with
             | error e => rfl
             | ok v => simp only [stripNul_L]
           · rfl)

theorem lowerH_inv (h : H) (hi : Inv h) : Inv (lowerH h) := by
  obtain ⟨a, b, c, d⟩ := hi
  exact ⟨by show h.pos ≤ (L h.s).length; rw [L_length]; exact a, b, by intro hs; show h.pos < (L h.s).length; rw [L_length]; exact c hs, d⟩

/-- **the loop of `isXSS` gives the same verdict on the lower-cased input** -/
theorem xssLoop_L : ∀ (fuel : Nat) (h : H) (attr : Nat), Inv h → NoCdata h.s →
    xssLoop (lowerH h) attr fuel = xssLoop h attr fuel := by
  intro fuel
  induction fuel with
  | zero => intro h attr _ _; rfl
  | succ fuel ih =>
    intro h attr hi hno
    unfold xssLoop
    rw [next_L h hno]
    obtain ⟨b, h', hr, hs, hb⟩ := next_spec h hi
    simp only [hr, mapR, Except.map, bind, Except.bind, pure, Except.pure]
    cases b with
    | false => rfl
    | true =>
      obtain ⟨_, hinv, _, _⟩ := hb rfl
      have hno' : NoCdata h'.s := by rw [hs]; exact hno
      have hrec : ∀ a, xssLoop (lowerH h') a fuel = xssLoop h' a fuel := fun a => ih h' a hinv hno'
      simp only [Bool.not_true, Bool.false_eq_true, ↓reduceIte]
      have hty : (lowerH h').tokType = h'.tokType := rfl
      have hts : (lowerH h').tokStart = h'.tokStart := rfl
      have htl : (lowerH h').tokLen = h'.tokLen := rfl
      simp only [hty, hts, htl, lowerH_s, slice_L]
      cases htt : h'.tokType <;> simp only []
      case tagNameOpen =>
        cases slice h'.s h'.tokStart (h'.tokStart + h'.tokLen) with
        | error e => rfl
        | ok t => simp only [Except.map, isBlackTag_L, hrec]
      case attrName =>
        cases slice h'.s h'.tokStart (h'.tokStart + h'.tokLen) with
        | error e => rfl
        | ok t => simp only [Except.map, isBlackAttr_L, hrec]
      case attrValue =>
        simp only [bne_self_eq_false, Bool.false_eq_true, ↓reduceIte]
        split
        · rfl
        · cases slice h'.s h'.tokStart (h'.tokStart + h'.tokLen) with
          | error e => rfl
          | ok t => simp only [Except.map, isBlackURL_L, hrec]
        · rfl
        · cases slice h'.s h'.tokStart (h'.tokStart + h'.tokLen) with
          | error e => rfl
          | ok t => simp only [Except.map, isBlackAttr_L, hrec]
        · exact hrec _
      case tagComment =>
        rw [commentIsXSS_L]
        cases commentIsXSS h' with
        | error e => rfl
        | ok r => simp only [hrec]
      all_goals exact hrec _

theorem isXSSCtx_L (s : Bytes) (ctx : Nat) (hno : NoCdata s) : isXSSCtx (L s) ctx = isXSSCtx s ctx := by
  unfold isXSSCtx xssFuel
  rw [L_length]
  exact xssLoop_L _ (init s ctx) 0 (init_inv s ctx) hno

/-- **C11 on the model, letter case**: `IsXSS` gives the same verdict on an input and on its ASCII
lower-casing, provided the input has no `[CDATA[` marker (the only case-sensitive one) -/
theorem isXSS_L (s : Bytes) (hno : NoCdata s) : isXSS (L s) = isXSS s := by
  unfold isXSS
  simp only [isXSSCtx_L s _ hno]

/-- … hence on any two inputs that differ only in the case of ASCII letters -/
theorem isXSS_case_insensitive (s s' : Bytes) (h : CaseEq s s') (hno : NoCdata s) (hno' : NoCdata s') :
    isXSS s = isXSS s' := by
  rw [← isXSS_L s hno, ← isXSS_L s' hno']
  have : L s = L s' := h
  rw [this]

end LibInj.Xss
