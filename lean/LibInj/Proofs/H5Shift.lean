import LibInj.Proofs.H5Good
set_option linter.unusedSimpArgs false
set_option linter.unusedVariables false
/-! C13: the HTML5 tokenizer commutes with prepending bytes to the input (positions shift by the
length of the prefix), on the states whose behaviour does not depend on `pos = 0`. -/
namespace LibInj.H5
open LibInj

/-- the same machine state over `t ++ s`, positions shifted; the pending token fields are arbitrary -/
def shiftG (t : Bytes) (a b : Nat) (c : Ty) (h : H) : H :=
  { h with s := t ++ h.s, pos := h.pos + t.length, tokStart := a, tokLen := b, tokType := c }

def shiftH (t : Bytes) (h : H) : H := shiftG t (h.tokStart + t.length) h.tokLen h.tokType h

/-- forget the state of a step that emitted nothing -/
def normR (r : M (Bool × H)) : M (Bool × H) := r.map (fun p => if p.1 then p else (false, { s := [] }))

/-- `X` on the shifted state and `Y` on the original agree: same error, same "no token", or the same
token and successor state shifted -/
def Sh (t : Bytes) (X Y : M (Bool × H)) : Prop := normR X = normR (Y.map (fun p => (p.1, shiftH t p.2)))

@[simp] theorem shiftG_s (t : Bytes) (a b : Nat) (c : Ty) (h : H) : (shiftG t a b c h).s = t ++ h.s := rfl
@[simp] theorem shiftG_pos (t : Bytes) (a b : Nat) (c : Ty) (h : H) : (shiftG t a b c h).pos = h.pos + t.length := rfl
@[simp] theorem shiftG_isClose (t : Bytes) (a b : Nat) (c : Ty) (h : H) : (shiftG t a b c h).isClose = h.isClose := rfl
@[simp] theorem shiftG_state (t : Bytes) (a b : Nat) (c : Ty) (h : H) : (shiftG t a b c h).state = h.state := rfl

theorem H_eq (A B : H) (h1 : A.s = B.s) (h2 : A.pos = B.pos) (h3 : A.isClose = B.isClose) (h4 : A.state = B.state)
    (h5 : A.tokStart = B.tokStart) (h6 : A.tokLen = B.tokLen) (h7 : A.tokType = B.tokType) : A = B := by
  cases A; cases B; simp_all

theorem sh_bind {α : Type} (t : Bytes) (x : M α) (f g : α → M (Bool × H)) (h : ∀ a, Sh t (f a) (g a)) :
    Sh t (x >>= f) (x >>= g) := by
  cases x with
  | error e => rfl
  | ok a => exact h a

theorem sh_bind2 {α : Type} (t : Bytes) (x' x : M α) (m : α → α) (f g : α → M (Bool × H)) (hx : x' = x.map m)
    (h : ∀ a, Sh t (f (m a)) (g a)) : Sh t (x' >>= f) (x >>= g) := by
  rw [hx]
  cases x with
  | error e => rfl
  | ok a => exact h a

theorem sh_ite (t : Bytes) (c c' : Prop) [Decidable c] [Decidable c'] (hc : c ↔ c') (A B A' B' : M (Bool × H))
    (hA : Sh t A A') (hB : Sh t B B') : Sh t (if c then A else B) (if c' then A' else B') := by
  by_cases h : c
  · rw [if_pos h, if_pos (hc.mp h)]; exact hA
  · rw [if_neg h, if_neg (fun h' => h (hc.mpr h'))]; exact hB

theorem sh_true (t : Bytes) (A B : H) (h : A = shiftH t B) : Sh t (pure (true, A)) (pure (true, B)) := by
  rw [h]; rfl

theorem sh_false (t : Bytes) (A B : H) : Sh t (pure (false, A)) (pure (false, B)) := rfl

theorem sh_flag (t : Bytes) (b : Bool) (A B : H) (h : A = shiftH t B) : Sh t (pure (b, A)) (pure (b, B)) := by
  cases b
  · exact sh_false t A B
  · exact sh_true t A B h

/-! ### primitives under the shift -/

theorem len_sh (t s : Bytes) : (t ++ s).length = s.length + t.length := by
  rw [List.length_append, Nat.add_comm]

theorem drop_sh (t s : Bytes) (p : Nat) : (t ++ s).drop (p + t.length) = s.drop p := by
  rw [List.drop_append, List.drop_eq_nil_of_le (by omega), List.nil_append]
  congr 1; omega

theorem get_sh (t s : Bytes) (p : Nat) : (t ++ s)[p + t.length]? = s[p]? := by
  rw [List.getElem?_append_right (by omega)]
  congr 1; omega

theorem at_sh (t s : Bytes) (p : Nat) : at' (t ++ s) (p + t.length) = at' s p := by
  unfold at'; rw [get_sh]

theorem off_sh (t s : Bytes) (p : Nat) : offFrom (t ++ s) (p + t.length) = (offFrom s p).map (· + t.length) := by
  unfold offFrom
  rw [len_sh]
  by_cases h : p ≤ s.length
  · rw [if_pos h, if_pos (by omega)]; rfl
  · rw [if_neg h, if_neg (by omega)]; rfl

/-- push `+ t.length` outwards -/
theorem addn (t : Bytes) (a k : Nat) : a + t.length + k = a + k + t.length := by omega

theorem beq_sh (a b n : Nat) : (a + n == b + n) = (a == b) := by
  rw [Bool.eq_iff_iff]; simp

macro "sh_leaf" : tactic =>
  `(tactic| (refine sh_true _ _ _ (H_eq _ _ ?_ ?_ ?_ ?_ ?_ ?_ ?_) <;>
      simp only [shiftH, shiftG, emit, len_sh, addn, Nat.add_sub_add_right] <;> (try omega)))

theorem stateBogusComment_sh (t : Bytes) (a b : Nat) (c : Ty) (h : H) :
    Sh t (stateBogusComment (shiftG t a b c h)) (stateBogusComment h) := by
  unfold stateBogusComment
  simp only [shiftG_s, shiftG_pos, drop_sh]
  refine sh_bind2 t _ _ (· + t.length) _ _ (off_sh t h.s h.pos) (fun start => ?_)
  cases indexByte (h.s.drop h.pos) 62 with
  | none => sh_leaf
  | some i => sh_leaf

macro "sh_if" : tactic =>
  `(tactic| refine sh_ite _ _ _ (by first | exact Iff.rfl | omega | (simp only [addn, len_sh]; omega)) _ _ _ _ ?_ ?_)

macro "sh_norm" : tactic =>
  `(tactic| simp only [shiftG_s, shiftG_pos, shiftG_isClose, shiftG_state, len_sh, addn, drop_sh, get_sh, at_sh,
      Nat.add_sub_add_right, Nat.add_lt_add_iff_right, Nat.add_le_add_iff_right, beq_sh, ge_iff_le, gt_iff_lt])

macro "sh_off" : tactic =>
  `(tactic| refine sh_bind2 _ _ _ (· + _) _ _ (off_sh _ _ _) (fun start => ?_))

theorem idx_lt {s : Bytes} {pos i : Nat} {c : UInt8} (h : indexByte (s.drop pos) c = some i) : pos + i < s.length := by
  have := indexByte_lt h
  simp only [List.length_drop] at this
  omega

theorem bogus2Loop_sh (t : Bytes) (a b : Nat) (c : Ty) (h : H) : ∀ (fuel fuel' pos : Nat),
    h.s.length - pos < fuel → h.s.length - pos < fuel' →
    Sh t (bogus2Loop (shiftG t a b c h) (pos + t.length) fuel') (bogus2Loop h pos fuel)
  | 0, _, _, hf, _ => by omega
  | _ + 1, 0, _, _, hf => by omega
  | fuel + 1, fuel' + 1, pos, hf, hf' => by
    unfold bogus2Loop
    sh_norm
    sh_off
    cases hi : indexByte (h.s.drop pos) 37 with
    | none =>
      simp only []
      sh_off
      sh_leaf
    | some index =>
      have hlt := idx_lt hi
      simp only []
      sh_if
      · sh_off
        sh_leaf
      · refine sh_bind _ _ _ _ (fun ch => ?_)
        sh_if
        · exact bogus2Loop_sh t a b c h fuel fuel' (pos + index + 1) (by omega) (by omega)
        · sh_off
          sh_leaf

theorem stateBogusComment2_sh (t : Bytes) (a b : Nat) (c : Ty) (h : H) :
    Sh t (stateBogusComment2 (shiftG t a b c h)) (stateBogusComment2 h) := by
  unfold stateBogusComment2
  exact bogus2Loop_sh t a b c h _ _ h.pos (by omega) (by simp only [shiftG_s, len_sh]; omega)

theorem stateDoctype_sh (t : Bytes) (a b : Nat) (c : Ty) (h : H) :
    Sh t (stateDoctype (shiftG t a b c h)) (stateDoctype h) := by
  unfold stateDoctype
  sh_norm
  sh_off
  cases indexByte (h.s.drop h.pos) 62 with
  | none => sh_leaf
  | some i => sh_leaf

theorem stateTagNameClose_sh (t : Bytes) (a b : Nat) (c : Ty) (h : H) :
    Sh t (stateTagNameClose (shiftG t a b c h)) (stateTagNameClose h) := by
  unfold stateTagNameClose
  sh_norm
  sh_off
  sh_leaf

theorem commentLoop_sh (t : Bytes) (a b : Nat) (c : Ty) (h : H) : ∀ (fuel fuel' pos : Nat),
    h.s.length - pos < fuel → h.s.length - pos < fuel' →
    Sh t (commentLoop (shiftG t a b c h) (pos + t.length) fuel') (commentLoop h pos fuel)
  | 0, _, _, hf, _ => by omega
  | _ + 1, 0, _, _, hf => by omega
  | fuel + 1, fuel' + 1, pos, hf, hf' => by
    unfold commentLoop
    sh_norm
    sh_off
    have heof : Sh t
        (do let start ← offFrom (t ++ h.s) (h.pos + t.length)
            pure (true, { shiftG t a b c h with state := .eof, tokStart := start, tokLen := h.s.length - h.pos, tokType := .tagComment }))
        (do let start ← offFrom h.s h.pos
            pure (true, { h with state := .eof, tokStart := start, tokLen := h.s.length - h.pos, tokType := .tagComment })) := by
      sh_off
      sh_leaf
    cases hi : indexByte (h.s.drop pos) 45 with
    | none => exact heof
    | some index =>
      have hlt := idx_lt hi
      simp only []
      sh_if
      · exact heof
      sh_if
      · exact heof
      refine sh_bind _ _ _ _ (fun ch => ?_)
      sh_if
      · exact commentLoop_sh t a b c h fuel fuel' (pos + index + 1) (by omega) (by omega)
      sh_if
      · exact heof
      refine sh_bind _ _ _ _ (fun c2 => ?_)
      sh_if
      · exact commentLoop_sh t a b c h fuel fuel' (pos + index + 1) (by omega) (by omega)
      sh_off
      sh_leaf

theorem cdataLoop_sh (t : Bytes) (a b : Nat) (c : Ty) (h : H) : ∀ (fuel fuel' pos : Nat),
    h.s.length - pos < fuel → h.s.length - pos < fuel' →
    Sh t (cdataLoop (shiftG t a b c h) (pos + t.length) fuel') (cdataLoop h pos fuel)
  | 0, _, _, hf, _ => by omega
  | _ + 1, 0, _, _, hf => by omega
  | fuel + 1, fuel' + 1, pos, hf, hf' => by
    unfold cdataLoop
    sh_norm
    sh_off
    have heof : Sh t
        (do let start ← offFrom (t ++ h.s) (h.pos + t.length)
            pure (true, { shiftG t a b c h with state := .eof, tokStart := start, tokLen := h.s.length - h.pos, tokType := .dataText }))
        (do let start ← offFrom h.s h.pos
            pure (true, { h with state := .eof, tokStart := start, tokLen := h.s.length - h.pos, tokType := .dataText })) := by
      sh_off
      sh_leaf
    cases hi : indexByte (h.s.drop pos) 93 with
    | none => exact heof
    | some index =>
      have hlt := idx_lt hi
      simp only []
      sh_if
      · exact heof
      refine sh_bind _ _ _ _ (fun c1 => ?_)
      refine sh_bind _ _ _ _ (fun isEnd => ?_)
      sh_if
      · sh_off
        sh_leaf
      · exact cdataLoop_sh t a b c h fuel fuel' (pos + index + 1) (by omega) (by omega)

theorem stateComment_sh (t : Bytes) (a b : Nat) (c : Ty) (h : H) :
    Sh t (stateComment (shiftG t a b c h)) (stateComment h) := by
  unfold stateComment
  exact commentLoop_sh t a b c h _ _ h.pos (by omega) (by simp only [shiftG_s, len_sh]; omega)

theorem stateCData_sh (t : Bytes) (a b : Nat) (c : Ty) (h : H) :
    Sh t (stateCData (shiftG t a b c h)) (stateCData h) := by
  unfold stateCData
  exact cdataLoop_sh t a b c h _ _ h.pos (by omega) (by simp only [shiftG_s, len_sh]; omega)

theorem shiftG_pos_add (t : Bytes) (a b : Nat) (c : Ty) (h : H) (k : Nat) :
    { shiftG t a b c h with pos := h.pos + k + t.length } = shiftG t a b c { h with pos := h.pos + k } := rfl

theorem stateMarkupDeclarationOpen_sh (t : Bytes) (a b : Nat) (c : Ty) (h : H) :
    Sh t (stateMarkupDeclarationOpen (shiftG t a b c h)) (stateMarkupDeclarationOpen h) := by
  unfold stateMarkupDeclarationOpen
  sh_norm
  sh_if
  · exact stateDoctype_sh t a b c h
  sh_if
  · exact stateCData_sh t a b c { h with pos := h.pos + 7 }
  sh_if
  · exact stateComment_sh t a b c { h with pos := h.pos + 2 }
  exact stateBogusComment_sh t a b c h

theorem stateTagName_sh (t : Bytes) (a b : Nat) (c : Ty) (h : H) :
    Sh t (stateTagName (shiftG t a b c h)) (stateTagName h) := by
  unfold stateTagName
  sh_norm
  sh_off
  cases h.s[h.pos + spn tagNameByte (h.s.drop h.pos)]? with
  | none => sh_leaf
  | some ch =>
    simp only []
    sh_if
    · sh_leaf
    sh_if
    · sh_leaf
    sh_if
    · sh_leaf
    · sh_leaf

theorem stateAttributeName_sh (t : Bytes) (a b : Nat) (c : Ty) (h : H) :
    Sh t (stateAttributeName (shiftG t a b c h)) (stateAttributeName h) := by
  unfold stateAttributeName
  sh_norm
  sh_off
  cases h.s[h.pos + 1 + spn attrNameByte (h.s.drop (h.pos + 1))]? with
  | none => sh_leaf
  | some ch =>
    simp only []
    sh_if
    · sh_leaf
    sh_if
    · sh_leaf
    sh_if
    · sh_leaf
    · sh_leaf

theorem stateAttributeValueNoQuote_sh (t : Bytes) (a b : Nat) (c : Ty) (h : H) :
    Sh t (stateAttributeValueNoQuote (shiftG t a b c h)) (stateAttributeValueNoQuote h) := by
  unfold stateAttributeValueNoQuote
  sh_norm
  sh_off
  cases h.s[h.pos + spn noQuoteByte (h.s.drop h.pos)]? with
  | none => sh_leaf
  | some ch =>
    simp only []
    sh_if
    · sh_leaf
    · sh_leaf

/-- the part of `stateAttributeValueQuote` after the opening quote has been stepped over -/
def valueQuoteCore (q : UInt8) (h : H) : M (Bool × H) := do
  let start ← offFrom h.s h.pos
  match indexByte (h.s.drop h.pos) q with
  | none => return (true, { h with tokStart := start, tokLen := h.s.length - h.pos, tokType := .attrValue, state := .eof })
  | some i => return (true, emit h start i .attrValue (h.pos + i + 1) .afterAttrValueQuoted)

theorem valueQuote_eq (q : UInt8) (h : H) :
    stateAttributeValueQuote q h = valueQuoteCore q (if h.pos > 0 then { h with pos := h.pos + 1 } else h) := rfl

theorem valueQuoteCore_sh (q : UInt8) (t : Bytes) (a b : Nat) (c : Ty) (h : H) :
    Sh t (valueQuoteCore q (shiftG t a b c h)) (valueQuoteCore q h) := by
  unfold valueQuoteCore
  sh_norm
  sh_off
  cases indexByte (h.s.drop h.pos) q with
  | none => sh_leaf
  | some i => sh_leaf

theorem stateAttributeValueQuote_sh (q : UInt8) (t : Bytes) (a b : Nat) (c : Ty) (h : H) (hp : 0 < h.pos) :
    Sh t (stateAttributeValueQuote q (shiftG t a b c h)) (stateAttributeValueQuote q h) := by
  rw [valueQuote_eq, valueQuote_eq]
  have e1 : (shiftG t a b c h).pos > 0 := by simp only [shiftG_pos]; omega
  rw [if_pos e1, if_pos hp]
  sh_norm
  exact valueQuoteCore_sh q t a b c { h with pos := h.pos + 1 }

theorem skipWhite_sh (t : Bytes) (a b : Nat) (c : Ty) (h : H) :
    skipWhite (shiftG t a b c h) = (shiftG t a b c (skipWhite h).1, (skipWhite h).2) := by
  unfold skipWhite
  sh_norm
  rfl

theorem skipWhite_pos (h : H) : h.pos ≤ (skipWhite h).1.pos := by
  unfold skipWhite; simp

theorem stateBeforeAttributeValue_sh (t : Bytes) (a b : Nat) (c : Ty) (h : H) (hp : 0 < h.pos) :
    Sh t (stateBeforeAttributeValue (shiftG t a b c h)) (stateBeforeAttributeValue h) := by
  unfold stateBeforeAttributeValue
  rw [skipWhite_sh]
  have hp' := skipWhite_pos h
  generalize skipWhite h = sw at hp' ⊢
  obtain ⟨h1, ch⟩ := sw
  simp only [] at hp' ⊢
  cases ch with
  | none => exact sh_false _ _ _
  | some ch =>
    simp only []
    sh_if
    · exact stateAttributeValueQuote_sh 34 t a b c h1 (by omega)
    sh_if
    · exact stateAttributeValueQuote_sh 39 t a b c h1 (by omega)
    sh_if
    · exact stateAttributeValueQuote_sh 96 t a b c h1 (by omega)
    · exact stateAttributeValueNoQuote_sh t a b c h1

def mapBan (t : Bytes) (a b : Nat) (c : Ty) (r : M (H × Option UInt8 × Bool)) : M (H × Option UInt8 × Bool) :=
  r.map (fun r => (shiftG t a b c r.1, r.2))

theorem skipWhite_lt (h : H) (x : UInt8) (hx : (skipWhite h).2 = some x) : (skipWhite h).1.pos < h.s.length := by
  unfold skipWhite at hx ⊢
  simp only [] at hx ⊢
  exact getElem?_some_lt hx

theorem banLoop_sh (t : Bytes) (a b : Nat) (c : Ty) : ∀ (fuel fuel' : Nat) (h : H),
    h.s.length - h.pos < fuel → h.s.length - h.pos < fuel' →
    banLoop (shiftG t a b c h) fuel' = mapBan t a b c (banLoop h fuel)
  | 0, _, _, hf, _ => by omega
  | _ + 1, 0, _, _, hf => by omega
  | fuel + 1, fuel' + 1, h, hf, hf' => by
    unfold banLoop
    sh_norm
    by_cases hlt : h.pos < h.s.length
    · rw [if_pos hlt, if_pos hlt, skipWhite_sh]
      have hp' := skipWhite_pos h
      have hl' := skipWhite_lt h
      have hs' : (skipWhite h).1.s = h.s := rfl
      generalize skipWhite h = sw at hp' hl' hs' ⊢
      obtain ⟨h1, ch⟩ := sw
      simp only [] at hp' hl' hs' ⊢
      cases ch with
      | none => rfl
      | some x =>
        have hl1 := hl' x rfl
        simp only []
        by_cases h47 : (x == 47) = true
        · rw [if_pos h47, if_pos h47]
          sh_norm
          cases hg : h1.s[h1.pos + 1]? with
          | none => rfl
          | some c2 =>
            simp only []
            by_cases h62 : (c2 != 62) = true
            · rw [if_pos h62, if_pos h62]
              have := banLoop_sh t a b c fuel fuel' { h1 with pos := h1.pos + 1 }
                (by show h1.s.length - (h1.pos + 1) < fuel; rw [hs']; omega) (by show h1.s.length - (h1.pos + 1) < fuel'; rw [hs']; omega)
              exact this
            · rw [if_neg h62, if_neg h62]; rfl
        · rw [if_neg h47, if_neg h47]; rfl
    · rw [if_neg hlt, if_neg hlt]; rfl

theorem sc_ban_sh (t : Bytes) (a b : Nat) (c : Ty) : ∀ (d : Nat),
    (∀ h : H, 1 ≤ h.pos → h.pos ≤ h.s.length →
      Sh t (stateSelfClosingStartTag d (shiftG t a b c h)) (stateSelfClosingStartTag d h)) ∧
    (∀ h : H, h.pos ≤ h.s.length →
      Sh t (stateBeforeAttributeName d (shiftG t a b c h)) (stateBeforeAttributeName d h))
  | 0 => ⟨fun _ _ _ => rfl, fun _ _ => rfl⟩
  | d + 1 => by
    obtain ⟨ihS, ihB⟩ := sc_ban_sh t a b c d
    constructor
    · intro h h1 hp
      unfold stateSelfClosingStartTag
      sh_norm
      sh_if
      · exact sh_false _ _ _
      refine sh_bind _ _ _ _ (fun ch => ?_)
      sh_if
      · have e1 : ¬ (h.pos + t.length = 0) := by omega
        have e2 : ¬ (h.pos = 0) := by omega
        rw [if_neg e1, if_neg e2]
        sh_leaf
      · exact ihB h hp
    · intro h hp
      unfold stateBeforeAttributeName
      sh_norm
      rw [banLoop_sh t a b c (h.s.length + 1) (h.s.length + 1 + t.length) h (by omega) (by omega)]
      obtain ⟨h', ch, slash, hb, b1, b2, b3, b4, b5⟩ := banLoop_spec h hp (h.s.length + 1) (by omega)
      rw [hb]
      show Sh t (if slash = true then _ else _) (if slash = true then _ else _)
      by_cases hsl : slash = true
      · rw [if_pos hsl, if_pos hsl]
        have := b4 hsl
        exact ihS h' (by omega) (by rw [b1]; exact b3)
      rw [if_neg hsl, if_neg hsl]
      clear hb b5
      dsimp only []
      cases ch with
      | none => exact sh_false _ _ _
      | some x =>
        simp only []
        sh_if
        · sh_off
          sh_leaf
        · exact stateAttributeName_sh t a b c h'

theorem stateAfterAttributeName_sh (t : Bytes) (a b : Nat) (c : Ty) (h : H) (hp : h.pos ≤ h.s.length) :
    Sh t (stateAfterAttributeName (shiftG t a b c h)) (stateAfterAttributeName h) := by
  unfold stateAfterAttributeName
  rw [skipWhite_sh]
  have hl' := skipWhite_lt h
  have hs' : (skipWhite h).1.s = h.s := rfl
  generalize skipWhite h = sw at hl' hs' ⊢
  obtain ⟨h1, ch⟩ := sw
  simp only [] at hl' hs' ⊢
  cases ch with
  | none => exact sh_false _ _ _
  | some x =>
    have hl1 := hl' x rfl
    simp only []
    sh_norm
    sh_if
    · exact (sc_ban_sh t a b c callDepth).1 { h1 with pos := h1.pos + 1 } (by show 1 ≤ h1.pos + 1; omega)
        (by show h1.pos + 1 ≤ h1.s.length; rw [hs']; omega)
    sh_if
    · exact stateBeforeAttributeValue_sh t a b c { h1 with pos := h1.pos + 1 } (by show 0 < h1.pos + 1; omega)
    sh_if
    · exact stateTagNameClose_sh t a b c h1
    · exact stateAttributeName_sh t a b c h1

theorem stateAfterAttributeValueQuotedState_sh (t : Bytes) (a b : Nat) (c : Ty) (h : H) (hp : h.pos ≤ h.s.length) :
    Sh t (stateAfterAttributeValueQuotedState (shiftG t a b c h)) (stateAfterAttributeValueQuotedState h) := by
  unfold stateAfterAttributeValueQuotedState
  sh_norm
  by_cases hge : h.s.length ≤ h.pos
  · rw [if_pos hge, if_pos hge]; exact sh_false _ _ _
  rw [if_neg hge, if_neg hge]
  refine sh_bind _ _ _ _ (fun ch => ?_)
  sh_if
  · exact (sc_ban_sh t a b c callDepth).2 { h with pos := h.pos + 1 } (by show h.pos + 1 ≤ h.s.length; omega)
  sh_if
  · exact (sc_ban_sh t a b c callDepth).1 { h with pos := h.pos + 1 } (by show 1 ≤ h.pos + 1; omega)
      (by show h.pos + 1 ≤ h.s.length; omega)
  sh_if
  · sh_off
    sh_leaf
  · exact (sc_ban_sh t a b c callDepth).2 h hp

theorem data_trio_sh (t : Bytes) : ∀ (d : Nat),
    (∀ (a b : Nat) (c : Ty) (h : H), Sh t (stateEndTagOpen d (shiftG t a b c h)) (stateEndTagOpen d h)) ∧
    (∀ (a b : Nat) (c : Ty) (h : H), 1 ≤ h.pos → Sh t (stateTagOpen d (shiftG t a b c h)) (stateTagOpen d h)) ∧
    (∀ (a b : Nat) (c : Ty) (h : H), Sh t (stateData d (shiftG t a b c h)) (stateData d h))
  | 0 => ⟨fun _ _ _ _ => rfl, fun _ _ _ _ _ => rfl, fun _ _ _ _ => rfl⟩
  | d + 1 => by
    obtain ⟨ihE, ihT, ihD⟩ := data_trio_sh t d
    refine ⟨?_, ?_, ?_⟩
    · intro a b c h
      unfold stateEndTagOpen
      sh_norm
      sh_if
      · exact sh_false _ _ _
      refine sh_bind _ _ _ _ (fun ch => ?_)
      sh_if
      · exact ihD a b c h
      sh_if
      · exact stateTagName_sh t a b c h
      · exact stateBogusComment_sh t a b c { h with isClose := false }
    · intro a b c h h1
      unfold stateTagOpen
      sh_norm
      sh_if
      · exact sh_false _ _ _
      refine sh_bind _ _ _ _ (fun ch => ?_)
      sh_if
      · exact stateMarkupDeclarationOpen_sh t a b c { h with pos := h.pos + 1 }
      sh_if
      · exact ihE a b c { h with pos := h.pos + 1, isClose := true }
      sh_if
      · exact stateBogusComment_sh t a b c { h with pos := h.pos + 1 }
      sh_if
      · exact stateBogusComment2_sh t a b c { h with pos := h.pos + 1 }
      sh_if
      · exact stateTagName_sh t a b c h
      sh_if
      · exact stateTagName_sh t a b c h
      have e1 : (h.pos + t.length == 0) = false := by
        rw [Bool.eq_false_iff]; simp; omega
      have e2 : (h.pos == 0) = false := by
        rw [Bool.eq_false_iff]; simp; omega
      simp only [e1, e2, Bool.false_eq_true, ↓reduceIte]
      sh_leaf
    · intro a b c h
      unfold stateData
      sh_norm
      refine sh_bind2 _ _ _ (· + _) _ _ (off_sh _ _ _) (fun start => ?_)
      cases indexByte (h.s.drop h.pos) 60 with
      | none =>
        simp only []
        refine sh_flag _ _ _ _ (H_eq _ _ ?_ ?_ ?_ ?_ ?_ ?_ ?_) <;>
          simp only [shiftH, shiftG, emit, len_sh, addn, Nat.add_sub_add_right] <;> (try omega)
      | some i =>
        simp only []
        sh_if
        · exact ihT (start + t.length) i .dataText (emit h start i .dataText (h.pos + i + 1) .tagOpen) (by show 1 ≤ h.pos + i + 1; omega)
        · sh_leaf

/-- the states whose step looks at `pos - 1` or tests `pos = 0` are entered after a byte was consumed,
and the quoted-value start states are initial states only -/
def ShOK (h : H) : Prop :=
  (h.state = .selfClosing → 1 ≤ h.pos) ∧ (h.state = .tagOpen → 1 ≤ h.pos) ∧ (h.state = .beforeAttrValue → 1 ≤ h.pos) ∧
  h.state ≠ .valSingle ∧ h.state ≠ .valDouble ∧ h.state ≠ .valBack

theorem next_sh (t : Bytes) (a b : Nat) (c : Ty) (h : H) (hp : h.pos ≤ h.s.length) (ho : ShOK h) :
    Sh t (next (shiftG t a b c h)) (next h) := by
  obtain ⟨o1, o2, o3, o4, o5, o6⟩ := ho
  unfold next
  simp only [shiftG_state]
  cases hs : h.state with
  | eof => exact sh_false _ _ _
  | data => exact (data_trio_sh t dataDepth).2.2 a b c h
  | tagOpen => exact (data_trio_sh t dataDepth).2.1 a b c h (o2 hs)
  | beforeAttrName => exact (sc_ban_sh t a b c callDepth).2 h hp
  | selfClosing => exact (sc_ban_sh t a b c callDepth).1 h (o1 hs) hp
  | tagNameClose => exact stateTagNameClose_sh t a b c h
  | afterAttrName => exact stateAfterAttributeName_sh t a b c h hp
  | beforeAttrValue => exact stateBeforeAttributeValue_sh t a b c h (o3 hs)
  | afterAttrValueQuoted => exact stateAfterAttributeValueQuotedState_sh t a b c h hp
  | valSingle => exact absurd hs o4
  | valDouble => exact absurd hs o5
  | valBack => exact absurd hs o6

theorem sh_ok_true (t : Bytes) (X : M (Bool × H)) (h' : H) (hx : Sh t X (.ok (true, h'))) : X = .ok (true, shiftH t h') := by
  unfold Sh normR at hx
  cases X with
  | error e => cases hx
  | ok p =>
    obtain ⟨b, x⟩ := p
    cases b with
    | false => simp [Except.map] at hx
    | true =>
      simp only [Except.map, ↓reduceIte, Except.ok.injEq] at hx
      rw [hx]

theorem sh_ok_false (t : Bytes) (X : M (Bool × H)) (h' : H) (hx : Sh t X (.ok (false, h'))) : ∃ x, X = .ok (false, x) := by
  unfold Sh normR at hx
  cases X with
  | error e => cases hx
  | ok p =>
    obtain ⟨b, x⟩ := p
    cases b with
    | false => exact ⟨x, rfl⟩
    | true => simp [Except.map] at hx

/-- after an emitting step the successor state is again shift-safe -/
theorem next_shok (h : H) (hi : Inv h) (h' : H) (hn : next h = .ok (true, h')) : ShOK h' := by
  have mk : StOK h' → (h.pos < h'.pos ∨ h'.state ≠ .beforeAttrValue) → ShOK h' := by
    intro ⟨s1, s2, s3, s4, s5, s6⟩ hadv
    refine ⟨s1, s2, ?_, s4, s5, s6⟩
    intro hb
    rcases hadv with h1 | h1
    · omega
    · exact absurd hb h1
  rcases next_cases h hi with ⟨hs, hr⟩ | ⟨hs, g⟩ | ⟨hs, g⟩ | ⟨hs, g⟩
  · rw [hr] at hn; cases hn
  · obtain ⟨x, hr, a1, a2, a3, a4, a5⟩ := g
    rw [hr] at hn; cases hn
    exact mk a5 (Or.inl a3)
  · obtain ⟨b, x, hr, a1, a2, a3, a4⟩ := g
    rw [hr] at hn; cases hn
    obtain ⟨c1, c2, c3, c4⟩ := a4 rfl
    apply mk c4
    rcases c3 with c3 | c3 | c3
    · exact Or.inl c3
    · right; rcases c3 with c3 | c3 <;> rw [c3] <;> simp
    · right; rw [c3]; simp
  · obtain ⟨b, x, hr, a1, a2, a3, a4⟩ := g
    rw [hr] at hn; cases hn
    obtain ⟨c1, c2, c3, c4⟩ := a4 rfl
    apply mk c4
    rcases c3 with c3 | c3
    · exact Or.inl c3
    · right; rcases c3 with c3 | c3 <;> rw [c3] <;> simp

/-! ### the call-depth parameter is irrelevant once the call returns -/

def LeR (X Y : M (Bool × H)) : Prop := ∀ r, X = .ok r → Y = .ok r

theorem le_refl (X : M (Bool × H)) : LeR X X := fun _ h => h

theorem le_bind {α : Type} (x : M α) (f g : α → M (Bool × H)) (h : ∀ a, LeR (f a) (g a)) : LeR (x >>= f) (x >>= g) := by
  cases x with
  | error e => intro r hr; cases hr
  | ok a => exact h a

theorem le_ite (c : Prop) [Decidable c] (A B A' B' : M (Bool × H)) (hA : LeR A A') (hB : LeR B B') :
    LeR (if c then A else B) (if c then A' else B') := by
  split
  · exact hA
  · exact hB

theorem depth_mono : ∀ (d : Nat),
    (∀ h : H, LeR (stateEndTagOpen d h) (stateEndTagOpen (d + 1) h)) ∧
    (∀ h : H, LeR (stateTagOpen d h) (stateTagOpen (d + 1) h)) ∧
    (∀ h : H, LeR (stateData d h) (stateData (d + 1) h))
  | 0 => by
    refine ⟨?_, ?_, ?_⟩ <;> (intro h r hr; cases hr)
  | d + 1 => by
    obtain ⟨ihE, ihT, ihD⟩ := depth_mono d
    refine ⟨?_, ?_, ?_⟩
    · intro h
      unfold stateEndTagOpen
      refine le_ite _ _ _ _ _ (le_refl _) ?_
      refine le_bind _ _ _ (fun ch => ?_)
      refine le_ite _ _ _ _ _ (ihD h) (le_refl _)
    · intro h
      unfold stateTagOpen
      refine le_ite _ _ _ _ _ (le_refl _) ?_
      refine le_bind _ _ _ (fun ch => ?_)
      refine le_ite _ _ _ _ _ (le_refl _) ?_
      refine le_ite _ _ _ _ _ (ihE _) ?_
      refine le_ite _ _ _ _ _ (le_refl _) ?_
      refine le_ite _ _ _ _ _ (le_refl _) ?_
      refine le_ite _ _ _ _ _ (le_refl _) ?_
      refine le_ite _ _ _ _ _ (le_refl _) ?_
      refine le_ite _ _ _ _ _ (ihD h) (le_refl _)
    · intro h
      unfold stateData
      refine le_bind _ _ _ (fun start => ?_)
      cases indexByte (h.s.drop h.pos) 60 with
      | none => exact le_refl _
      | some i =>
        simp only []
        exact le_ite _ _ _ _ _ (ihT _) (le_refl _)

end LibInj.H5
