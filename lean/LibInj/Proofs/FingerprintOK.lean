import LibInj.Proofs.FoldOK
import LibInj.Sqli.Check
set_option linter.unusedSimpArgs false
set_option linter.unusedVariables false
/-! Safety of `fold`, `fingerprint` and the blacklist / whitelist stage (C01, C08). -/
namespace LibInj.Sqli
open LibInj

theorem sinv_init (input : Bytes) (flags : Nat) : SInv (sqliInit input flags) := by
  refine ⟨by simp [sqliInit], Nat.zero_le _, ?_⟩
  intro t ht
  simp only [sqliInit, List.mem_replicate] at ht
  rw [ht.2]; exact tokF_default

theorem init_empty (input : Bytes) (flags : Nat) :
    ∀ j t, j ≠ 0 → (sqliInit input flags).tv[j]? = some t → t.cat = 0 := by
  intro j t _ h
  have : t ∈ (sqliInit input flags).tv := List.mem_of_getElem? h
  simp only [sqliInit, List.mem_replicate] at this
  rw [this.2]

/-- weak invariant that survives the empty-backtick re-categorisation at the end of `fingerprint` -/
def SInvW (s : State) : Prop := s.tv.length = 8 ∧ ∀ t ∈ s.tv, TokInv t ∧ (t.cat = 0 ∨ isClassU8 t.cat = true)

theorem SInv.weak {s : State} (h : SInv s) : SInvW s := ⟨h.1, fun t ht => ⟨(h.2.2 t ht).1, (h.2.2 t ht).2.1⟩⟩

theorem tvGetW (s : State) (hs : SInvW s) (i : Nat) (hi : i < 8) : ∃ t, tvGet s i = .ok t ∧ TokInv t ∧ s.tv[i]? = some t := by
  unfold tvGet
  have hlt : i < s.tv.length := by rw [hs.1]; exact hi
  rw [List.getElem?_eq_getElem hlt]
  exact ⟨_, rfl, (hs.2 _ (List.getElem_mem hlt)).1, rfl⟩

theorem buildFp_ok (s : State) (hs : SInvW s) (length : Nat) (hl : length ≤ 8) :
    ∀ (fuel i : Nat) (acc : Bytes), length ≤ i + fuel →
      buildFp s length i acc fuel = .ok none ∨
      buildFp s length i acc fuel = .ok (some (acc ++ ((s.tv.drop i).take (length - i)).map (·.cat))) := by
  intro fuel
  induction fuel with
  | zero =>
    intro i acc h
    right
    have : length - i = 0 := by omega
    simp [buildFp, this]
  | succ fuel ih =>
    intro i acc h
    unfold buildFp
    by_cases hi : i < length
    · obtain ⟨t, ht, _, hget⟩ := tvGetW s hs i (by omega)
      simp only [hi, ↓reduceIte, ht, bind, Except.bind, pure, Except.pure]
      by_cases hx : (t.cat == 88) = true
      · simp only [hx, ↓reduceIte]; exact Or.inl trivial
      · simp only [hx, Bool.false_eq_true, ↓reduceIte]
        rcases ih (i + 1) (acc ++ [t.cat]) (by omega) with h1 | h1
        · exact Or.inl h1
        · right
          rw [h1]
          have hlt : i < s.tv.length := by rw [hs.1]; omega
          have hd : s.tv.drop i = t :: s.tv.drop (i + 1) := by
            rw [List.drop_eq_getElem_cons hlt]
            congr 1
            rw [List.getElem?_eq_getElem hlt] at hget
            exact Option.some.inj hget
          have hk : length - i = (length - (i + 1)) + 1 := by omega
          rw [hd, hk, List.take_succ_cons, List.map_cons, List.append_assoc]
          rfl
    · simp only [hi, ↓reduceIte, pure, Except.pure]
      right
      have : length - i = 0 := by omega
      simp [this]

end LibInj.Sqli

namespace LibInj.Sqli
open LibInj

/-- what the blacklist / whitelist stage may rely on -/
def FpInv (input : Bytes) (st : State) : Prop :=
  st.input = input ∧
  (st.fingerprint = [88] ∨
    (SInvW st ∧ ∃ n, n ≤ 7 ∧ st.fingerprint = (st.tv.take n).map (·.cat) ∧ (n ≤ 2 → SInv st ∧ (n ≠ 0 → XFin st))))

theorem tvSetW (s : State) (hs : SInvW s) (i : Nat) (hi : i < 8) (t : Token) (ht : TokInv t ∧ (t.cat = 0 ∨ isClassU8 t.cat = true)) :
    ∃ s', tvSet s i t = .ok s' ∧ SInvW s' ∧ s'.input = s.input ∧ s'.tv = s.tv.set i t := by
  have hlt : i < s.tv.length := by rw [hs.1]; exact hi
  rw [tvSet_ok s i t hlt]
  refine ⟨_, rfl, ⟨by simp; exact hs.1, ?_⟩, rfl, rfl⟩
  intro x hx
  rcases List.mem_or_eq_of_mem_set hx with h | h
  · exact hs.2 x h
  · rw [h]; exact ht

/-- **`fingerprint` is total** -/
theorem fingerprint_ok (input : Bytes) (flags : Nat) :
    ∃ st, fingerprint input flags = .ok st ∧ FpInv input st := by
  unfold fingerprint
  obtain ⟨n, s1, h1, hs1, hi1, hn, hxf⟩ := fold_ok (sqliInit input flags) (sinv_init input flags) (init_empty input flags)
  have hin : s1.input = input := by rw [hi1]; rfl
  simp only [h1, bind, Except.bind, pure, Except.pure]
  -- the empty-backtick re-categorisation
  have hstep : ∃ s2, recatLast s1 n = .ok s2 ∧ SInvW s2 ∧ s2.input = input ∧ (n ≤ 2 → s2 = s1) := by
    unfold recatLast
    by_cases hn2 : n > 2
    · rw [if_pos hn2]
      obtain ⟨t, ht, hti, _⟩ := tvGetW s1 hs1.weak (n - 1) (by omega)
      simp only [ht, bind, Except.bind, pure, Except.pure]
      by_cases hc : (t.cat == 110 && t.strOpen == 96 && t.len == 0 && t.strClose == 0) = true
      · rw [if_pos hc]
        obtain ⟨s2, h2, hs2, hi2, _⟩ := tvSetW s1 hs1.weak (n - 1) (by omega) { t with cat := 99 } ⟨hti, Or.inr (show isClassU8 99 = true by decide)⟩
        exact ⟨s2, h2, hs2, by rw [hi2]; exact hin, fun h => by omega⟩
      · rw [if_neg hc]
        exact ⟨s1, rfl, hs1.weak, hin, fun _ => rfl⟩
    · rw [if_neg hn2]
      exact ⟨s1, rfl, hs1.weak, hin, fun _ => rfl⟩
  obtain ⟨s2, h2, hs2, hi2, hsame⟩ := hstep
  rw [h2]
  simp only []
  rcases buildFp_ok s2 hs2 n (by omega) 8 0 [] (by omega) with hb | hb
  · simp only [hb]
    obtain ⟨t0, ht0, hti0, _⟩ := tvGetW s2 hs2 0 (by omega)
    simp only [ht0]
    have hlt : 0 < s2.tv.length := by rw [hs2.1]; omega
    simp only [tvSet_ok s2 0 _ hlt]
    exact ⟨_, rfl, hi2, Or.inl rfl⟩
  · simp only [hb]
    refine ⟨_, rfl, hi2, Or.inr ⟨⟨hs2.1, hs2.2⟩, n, hn, ?_, ?_⟩⟩
    · simp
    · intro h; rw [hsame h]; exact ⟨⟨hs1.1, hs1.2.1, hs1.2.2⟩, fun h0 => hxf h0⟩

end LibInj.Sqli
