import LibInj.Bytes
/-! The canonical SQL-injection grammar of C03 (DESIGN §6 C03), as data of the specification: the same
lists as `harness/oracle_sql.go` (`c03Skeletons`, `c03Prefixes`, `c03Tails`, `c03Seps`; `vcheck C03`
compares the two on every run). A skeleton is its list of space-separated words; a member of the grammar
is `prefix ++ (words joined by a separator) ++ tail`, in any letter case. All lists are lower case. -/
namespace LibInj.Spec.SqliGrammar
open LibInj

def skeletons : List (List Bytes) := [
  [[111, 114], [49, 61, 49]],  -- or 1=1
  [[111, 114], [49], [61], [49]],  -- or 1 = 1
  [[111, 114], [39, 97, 39, 61, 39, 97, 39]],  -- or 'a'='a'
  [[111, 114], [39, 97, 39, 61, 39, 97]],  -- or 'a'='a
  [[111, 114], [34, 97, 34, 61, 34, 97, 34]],  -- or "a"="a"
  [[97, 110, 100], [49, 61, 49]],  -- and 1=1
  [[111, 114], [49], [108, 105, 107, 101], [49]],  -- or 1 like 1
  [[111, 114], [50, 62, 49]],  -- or 2>1
  [[124, 124], [49, 61, 49]],  -- || 1=1
  [[111, 114], [49, 61, 49], [111, 114], [49, 61, 49]],  -- or 1=1 or 1=1
  [[117, 110, 105, 111, 110], [115, 101, 108, 101, 99, 116], [49]],  -- union select 1
  [[117, 110, 105, 111, 110], [115, 101, 108, 101, 99, 116], [49, 44, 50, 44, 51]],  -- union select 1,2,3
  [[117, 110, 105, 111, 110], [97, 108, 108], [115, 101, 108, 101, 99, 116], [49]],  -- union all select 1
  [[117, 110, 105, 111, 110], [115, 101, 108, 101, 99, 116], [110, 117, 108, 108]],  -- union select null
  [[117, 110, 105, 111, 110], [115, 101, 108, 101, 99, 116], [49], [102, 114, 111, 109], [116]],  -- union select 1 from t
  [[117, 110, 105, 111, 110], [115, 101, 108, 101, 99, 116], [117, 115, 101, 114, 40, 41]],  -- union select user()
  [[117, 110, 105, 111, 110], [115, 101, 108, 101, 99, 116], [64, 64, 118, 101, 114, 115, 105, 111, 110]],  -- union select @@version
  [[117, 110, 105, 111, 110], [100, 105, 115, 116, 105, 110, 99, 116], [115, 101, 108, 101, 99, 116], [49]],  -- union distinct select 1
  [[59], [100, 114, 111, 112], [116, 97, 98, 108, 101], [116]],  -- ; drop table t
  [[59], [101, 120, 101, 99], [120, 112, 95, 99, 109, 100, 115, 104, 101, 108, 108], [39, 120, 39]],  -- ; exec xp_cmdshell 'x'
  [[59], [105, 110, 115, 101, 114, 116], [105, 110, 116, 111], [116], [118, 97, 108, 117, 101, 115], [40, 49, 41]],  -- ; insert into t values (1)
  [[59], [100, 101, 108, 101, 116, 101], [102, 114, 111, 109], [116]],  -- ; delete from t
  [[59], [117, 112, 100, 97, 116, 101], [116], [115, 101, 116], [97, 61, 49]],  -- ; update t set a=1
  [[97, 110, 100], [115, 108, 101, 101, 112, 40, 53, 41]],  -- and sleep(5)
  [[111, 114], [115, 108, 101, 101, 112, 40, 53, 41]],  -- or sleep(5)
  [[97, 110, 100], [98, 101, 110, 99, 104, 109, 97, 114, 107, 40, 49, 44, 50, 41]],  -- and benchmark(1,2)
  [[97, 110, 100], [101, 120, 116, 114, 97, 99, 116, 118, 97, 108, 117, 101, 40, 49, 44, 50, 41]],  -- and extractvalue(1,2)
  [[97, 110, 100], [117, 112, 100, 97, 116, 101, 120, 109, 108, 40, 49, 44, 50, 44, 51, 41]],  -- and updatexml(1,2,3)
  [[111, 114], [112, 103, 95, 115, 108, 101, 101, 112, 40, 53, 41]],  -- or pg_sleep(5)
  [[97, 110, 100], [40, 115, 101, 108, 101, 99, 116], [49, 41]],  -- and (select 1)
  [[97, 110, 100], [49, 61, 40, 115, 101, 108, 101, 99, 116], [49, 41]],  -- and 1=(select 1)
  [[97, 110, 100], [40, 115, 101, 108, 101, 99, 116], [99, 111, 117, 110, 116, 40, 42, 41], [102, 114, 111, 109], [116, 41, 62, 48]],  -- and (select count(*) from t)>0
  [[97, 110, 100], [105, 102, 40, 49, 61, 49, 44, 115, 108, 101, 101, 112, 40, 53, 41, 44, 48, 41]],  -- and if(1=1,sleep(5),0)
  [[97, 110, 100], [97, 115, 99, 105, 105, 40, 115, 117, 98, 115, 116, 114, 105, 110, 103, 40, 117, 115, 101, 114, 40, 41, 44, 49, 44, 49, 41, 41, 62, 54, 52]],  -- and ascii(substring(user(),1,1))>64
  [[97, 110, 100], [108, 111, 97, 100, 95, 102, 105, 108, 101, 40, 39, 120, 39, 41]],  -- and load_file('x')
  [[111, 114, 100, 101, 114], [98, 121], [49]],  -- order by 1
  [[103, 114, 111, 117, 112], [98, 121], [49]],  -- group by 1
  [[104, 97, 118, 105, 110, 103], [49, 61, 49]],  -- having 1=1
  [[108, 105, 109, 105, 116], [49]]  -- limit 1
]

def prefixes : List Bytes := [
  [49, 32],
  [120, 39, 32],
  [120, 34, 32],
  [49, 41, 32],
  [120, 39, 41, 32],
  [49]
]

def tails : List Bytes := [
  [],
  [32, 45, 45],
  [32, 45, 45, 32, 120],
  [32, 35],
  [47, 42],
  [45, 45, 32],
  [59, 45, 45],
  [45, 45],
  [35],
  [32, 47, 42],
  [45, 45, 10],
  [47, 42, 33, 49, 42, 47]
]

def seps : List Bytes := [
  [32],
  [9],
  [10],
  [47, 42, 42, 47],
  [32, 32],
  [11],
  [12],
  [13],
  [160],
  [0],
  [47, 42, 120, 42, 47],
  [32, 47, 42, 42, 47, 32],
  [9, 10]
]

/-- words joined by a separator -/
def join (sp : Bytes) : List Bytes → Bytes
  | [] => []
  | [w] => w
  | w :: ws => w ++ sp ++ join sp ws

def render (pr : Bytes) (sk : List Bytes) (sp tl : Bytes) : Bytes := pr ++ join sp sk ++ tl

/-- every prefix × tail for one skeleton, words separated by one space -/
def membersTails (sk : List Bytes) : List Bytes :=
  prefixes.flatMap fun p => tails.map fun t => render p sk [32] t

/-- every prefix × separator for one skeleton, no tail -/
def membersSeps (sk : List Bytes) : List Bytes :=
  prefixes.flatMap fun p => seps.map fun sp => render p sk sp []

def membersOf (sk : List Bytes) : List Bytes := membersTails sk ++ membersSeps sk

/-- the kernel-evaluated part of the grammar: all skeletons × prefixes × (tails ∪ separators) -/
def members : List Bytes := skeletons.flatMap membersOf

end LibInj.Spec.SqliGrammar
