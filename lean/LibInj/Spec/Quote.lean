import LibInj.Bytes
/-! Reference meaning of "the closing quote of a string literal": a one-pass automaton that carries
the parity of the current backslash run. No index arithmetic, no look-behind. -/
namespace LibInj.Spec

/-- offset of the first delimiter `d` that is neither preceded by an odd number of backslashes nor
immediately followed by another `d` (a doubled delimiter is skipped as a pair); `none` if there is none.
`odd` = parity of the backslash run ending just before the current byte, `n` = offset of the current byte. -/
def scan (d : UInt8) : Bytes → Bool → Nat → Option Nat
  | [], _, _ => none
  | c :: rest, odd, n =>
    if c == d then
      if odd then scan d rest false (n + 1)
      else match rest with
        | c' :: rest' => if c' == d then scan d rest' false (n + 2) else some n
        | [] => some n
    else if c == 92 then scan d rest (!odd) (n + 1)
    else scan d rest false (n + 1)

/-- the closing quote of `content` for delimiter `d` -/
def closingQuote (content : Bytes) (d : UInt8) : Option Nat := scan d content false 0

/-- first index `i` with `h[i..] ` starting with `n` — the meaning of "first occurrence" -/
def firstOcc (h n : Bytes) : Option Nat := indexOf h n

end LibInj.Spec
