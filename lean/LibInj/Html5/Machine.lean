import LibInj.Bytes
/-! Model of the HTML5 tokenizer state machine (html5.go). Offsets are absolute into `h.s`;
every index/slice is checked; Go call recursion is modelled by a depth parameter. -/
namespace LibInj.H5

inductive St
  | eof | data | tagOpen | beforeAttrName | selfClosing | tagNameClose | afterAttrName
  | beforeAttrValue | afterAttrValueQuoted | valSingle | valDouble | valBack
deriving Repr, DecidableEq, Inhabited

inductive Ty
  | dataText | tagNameOpen | tagNameClose | tagNameSelfClose | tagData | tagClose
  | attrName | attrValue | tagComment | docType
deriving Repr, DecidableEq, Inhabited

def Ty.toNat : Ty → Nat
  | .dataText => 0 | .tagNameOpen => 1 | .tagNameClose => 2 | .tagNameSelfClose => 3 | .tagData => 4
  | .tagClose => 5 | .attrName => 6 | .attrValue => 7 | .tagComment => 8 | .docType => 9

structure H where
  s : Bytes
  pos : Nat := 0
  isClose : Bool := false
  state : St := .data
  tokStart : Nat := 0
  tokLen : Nat := 0
  tokType : Ty := .dataText
deriving Repr

/-- checked open slice start: Go `h.s[i:]` panics when i > len; we only keep the offset -/
def offFrom (s : Bytes) (i : Nat) : M Nat :=
  if i ≤ s.length then .ok i else .error .slice

def isH5White (c : UInt8) : Bool := c == 10 || c == 9 || c == 11 || c == 12 || c == 13 || c == 32
def isSkipWhite (c : UInt8) : Bool := c == 0 || c == 32 || c == 9 || c == 10 || c == 11 || c == 12 || c == 13
def tagNameByte (c : UInt8) : Bool := !(isH5White c || c == 47 || c == 62)
def attrNameByte (c : UInt8) : Bool := !(isH5White c || c == 47 || c == 61 || c == 62)
def noQuoteByte (c : UInt8) : Bool := !(isH5White c || c == 62)
def isNul (c : UInt8) : Bool := c == 0
def isAlpha (c : UInt8) : Bool := (97 ≤ c && c ≤ 122) || (65 ≤ c && c ≤ 90)


/-- skipWhite: advances pos over NUL/space/tab/LF/VT/FF/CR; returns (next byte or none=EOF) -/
def skipWhite (h : H) : H × Option UInt8 :=
  let n := spn isSkipWhite (h.s.drop h.pos)
  let h' := { h with pos := h.pos + n }
  (h', h.s[h.pos + n]?)

def emit (h : H) (start len : Nat) (ty : Ty) (pos : Nat) (st : St) : H :=
  { h with tokStart := start, tokLen := len, tokType := ty, pos := pos, state := st }

def stateBogusComment (h : H) : M (Bool × H) := do
  let start ← offFrom h.s h.pos
  match indexByte (h.s.drop h.pos) 62 with
  | none => return (true, emit h start (h.s.length - h.pos) .tagComment h.s.length .eof)
  | some i => return (true, emit h start i .tagComment (h.pos + i + 1) .data)

def bogus2Loop (h : H) (pos : Nat) : Nat → M (Bool × H)
  | 0 => .error .fuel
  | fuel + 1 => do
    let _ ← offFrom h.s pos
    match indexByte (h.s.drop pos) 37 with
    | none =>
      let start ← offFrom h.s h.pos
      return (true, emit h start (h.s.length - h.pos) .tagComment h.s.length .eof)
    | some index =>
      if pos + index + 1 ≥ h.s.length then
        let start ← offFrom h.s h.pos
        return (true, emit h start (h.s.length - h.pos) .tagComment h.s.length .eof)
      else
        let c ← at' h.s (pos + index + 1)
        if c != 62 then bogus2Loop h (pos + index + 1) fuel
        else
          let start ← offFrom h.s h.pos
          return (true, emit h start (pos + index - h.pos) .tagComment (pos + index + 2) .data)

def stateBogusComment2 (h : H) : M (Bool × H) := bogus2Loop h h.pos (h.s.length + 1)

/-- count NULs from index i (the `skip all nulls` loop) -/
def commentLoop (h : H) (pos : Nat) : Nat → M (Bool × H)
  | 0 => .error .fuel
  | fuel + 1 => do
    let _ ← offFrom h.s pos
    let eofTok : M (Bool × H) := do
      let start ← offFrom h.s h.pos
      -- note: Go leaves h.pos unchanged here
      return (true, { h with state := .eof, tokStart := start, tokLen := h.s.length - h.pos, tokType := .tagComment })
    match indexByte (h.s.drop pos) 45 with
    | none => eofTok
    | some index =>
      if pos + index + 3 > h.s.length then eofTok
      else
        let nulls := spn isNul (h.s.drop (pos + index + 1))
        let offset := 1 + nulls
        if pos + index + offset == h.s.length then eofTok
        else
          let ch ← at' h.s (pos + index + offset)
          if ch != 45 && ch != 33 then commentLoop h (pos + index + 1) fuel
          else
            let offset := offset + 1
            if pos + index + offset == h.s.length then eofTok
            else
              let c2 ← at' h.s (pos + index + offset)
              if c2 != 62 then commentLoop h (pos + index + 1) fuel
              else
                let offset := offset + 1
                let start ← offFrom h.s h.pos
                return (true, emit h start (index + pos - h.pos) .tagComment (pos + index + offset) .data)

def stateComment (h : H) : M (Bool × H) := commentLoop h h.pos (h.s.length + 1)

def cdataLoop (h : H) (pos : Nat) : Nat → M (Bool × H)
  | 0 => .error .fuel
  | fuel + 1 => do
    let _ ← offFrom h.s pos
    let eofTok : M (Bool × H) := do
      let start ← offFrom h.s h.pos
      return (true, { h with state := .eof, tokStart := start, tokLen := h.s.length - h.pos, tokType := .dataText })
    match indexByte (h.s.drop pos) 93 with
    | none => eofTok
    | some index =>
      if pos + index + 3 > h.s.length then eofTok
      else
        let c1 ← at' h.s (pos + index + 1)
        let isEnd ← (if c1 == 93 then do let c2 ← at' h.s (pos + index + 2); pure (c2 == 62) else pure false)
        if isEnd then
          let start ← offFrom h.s h.pos
          return (true, emit h start (pos + index - h.pos) .dataText (pos + index + 3) .data)
        else cdataLoop h (pos + index + 1) fuel

def stateCData (h : H) : M (Bool × H) := cdataLoop h h.pos (h.s.length + 1)

def stateDoctype (h : H) : M (Bool × H) := do
  let start ← offFrom h.s h.pos
  match indexByte (h.s.drop h.pos) 62 with
  | none => return (true, { h with tokStart := start, tokType := .docType, state := .eof, tokLen := h.s.length - h.pos })
  | some i => return (true, emit h start i .docType (h.pos + i + 1) .data)

def doctypeLower : Bytes := [100,111,99,116,121,112,101]
def cdataOpen : Bytes := [91,67,68,65,84,65,91]

def stateMarkupDeclarationOpen (h : H) : M (Bool × H) :=
  let remaining := h.s.length - h.pos
  let seven := (h.s.drop h.pos).take 7
  if remaining ≥ 7 && goLowerAscii seven == doctypeLower then stateDoctype h
  else if remaining ≥ 7 && seven == cdataOpen then stateCData { h with pos := h.pos + 7 }
  else if remaining ≥ 2 && (h.s.drop h.pos).take 2 == [45, 45] then stateComment { h with pos := h.pos + 2 }
  else stateBogusComment h

def stateTagNameClose (h : H) : M (Bool × H) := do
  let start ← offFrom h.s h.pos
  let pos := h.pos + 1
  return (true, { h with isClose := false, tokStart := start, tokLen := 1, tokType := .tagNameClose, pos := pos,
                          state := if pos < h.s.length then .data else .eof })

/-- stateTagName scan: index of first byte (from pos) that is h5-white, '/' or '>' (NULs are skipped like any byte) -/
def stateTagName (h : H) : M (Bool × H) := do
  let start ← offFrom h.s h.pos
  let n := spn tagNameByte (h.s.drop h.pos)
  let pos := h.pos + n
  match h.s[pos]? with
  | none => return (true, { h with tokStart := start, tokLen := h.s.length - h.pos, tokType := .tagNameOpen, state := .eof })
  | some ch =>
    if isH5White ch then return (true, emit h start (pos - h.pos) .tagNameOpen (pos + 1) .beforeAttrName)
    else if ch == 47 then return (true, emit h start (pos - h.pos) .tagNameOpen (pos + 1) .selfClosing)
    else -- '>'
      if h.isClose then return (true, { (emit h start (pos - h.pos) .tagClose (pos + 1) .data) with isClose := false })
      else return (true, emit h start (pos - h.pos) .tagNameOpen pos .tagNameClose)

def stateAttributeName (h : H) : M (Bool × H) := do
  let start ← offFrom h.s h.pos
  let n := spn attrNameByte (h.s.drop (h.pos + 1))
  let pos := h.pos + 1 + n
  match h.s[pos]? with
  | none => return (true, emit h start (h.s.length - h.pos) .attrName h.s.length .eof)
  | some ch =>
    if isH5White ch then return (true, emit h start (pos - h.pos) .attrName (pos + 1) .afterAttrName)
    else if ch == 47 then return (true, emit h start (pos - h.pos) .attrName (pos + 1) .selfClosing)
    else if ch == 61 then return (true, emit h start (pos - h.pos) .attrName (pos + 1) .beforeAttrValue)
    else return (true, emit h start (pos - h.pos) .attrName pos .tagNameClose)

def stateAttributeValueNoQuote (h : H) : M (Bool × H) := do
  let start ← offFrom h.s h.pos
  let n := spn noQuoteByte (h.s.drop h.pos)
  let pos := h.pos + n
  match h.s[pos]? with
  | none => return (true, { h with state := .eof, tokStart := start, tokLen := h.s.length - h.pos, tokType := .attrValue })
  | some ch =>
    if isH5White ch then return (true, emit h start (pos - h.pos) .attrValue (pos + 1) .beforeAttrName)
    else return (true, emit h start (pos - h.pos) .attrValue pos .tagNameClose)

def stateAttributeValueQuote (q : UInt8) (h : H) : M (Bool × H) := do
  let h := if h.pos > 0 then { h with pos := h.pos + 1 } else h
  let start ← offFrom h.s h.pos
  match indexByte (h.s.drop h.pos) q with
  | none => return (true, { h with tokStart := start, tokLen := h.s.length - h.pos, tokType := .attrValue, state := .eof })
  | some i => return (true, emit h start i .attrValue (h.pos + i + 1) .afterAttrValueQuoted)

def stateBeforeAttributeValue (h : H) : M (Bool × H) :=
  let (h, ch) := skipWhite h
  match ch with
  | none => return (false, { h with state := .eof })
  | some c =>
    if c == 34 then stateAttributeValueQuote 34 h
    else if c == 39 then stateAttributeValueQuote 39 h
    else if c == 96 then stateAttributeValueQuote 96 h
    else stateAttributeValueNoQuote h

/-- the slash-skipping loop of stateBeforeAttributeName: returns the H at which a decision is taken -/
def banLoop (h : H) : Nat → M (H × Option UInt8 × Bool)   -- (state, current byte, sawSlashBeforeGTorEOF)
  | 0 => .error .fuel
  | fuel + 1 =>
    if h.pos < h.s.length then
      let (h, ch) := skipWhite h
      match ch with
      | none => .ok (h, none, false)
      | some c =>
        if c == 47 then
          let h := { h with pos := h.pos + 1 }
          match h.s[h.pos]? with
          | some c2 => if c2 != 62 then banLoop h fuel else .ok (h, some 47, true)
          | none => .ok (h, some 47, true)
        else .ok (h, some c, false)
    else .ok (h, none, false)

mutual
def stateSelfClosingStartTag (d : Nat) (h : H) : M (Bool × H) :=
  match d with
  | 0 => .error .depth
  | d + 1 =>
    if h.pos ≥ h.s.length then return (false, h)
    else do
      let ch ← at' h.s h.pos
      if ch == 62 then
        if h.pos = 0 then .error .slice else
        return (true, emit h (h.pos - 1) 2 .tagNameSelfClose (h.pos + 1) .data)
      else stateBeforeAttributeName d h

def stateBeforeAttributeName (d : Nat) (h : H) : M (Bool × H) :=
  match d with
  | 0 => .error .depth
  | d + 1 => do
    let (h, ch, slash) ← banLoop h (h.s.length + 1)
    if slash then stateSelfClosingStartTag d h
    else match ch with
      | none => return (false, h)
      | some c =>
        if c == 62 then
          let start ← offFrom h.s h.pos
          return (true, emit h start 1 .tagNameClose (h.pos + 1) .data)
        else stateAttributeName h
end

def callDepth : Nat := 4

def stateAfterAttributeName (h : H) : M (Bool × H) :=
  let (h, ch) := skipWhite h
  match ch with
  | none => return (false, h)
  | some c =>
    if c == 47 then stateSelfClosingStartTag callDepth { h with pos := h.pos + 1 }
    else if c == 61 then stateBeforeAttributeValue { h with pos := h.pos + 1 }
    else if c == 62 then stateTagNameClose h
    else stateAttributeName h

def stateAfterAttributeValueQuotedState (h : H) : M (Bool × H) :=
  if h.pos ≥ h.s.length then return (false, h)
  else do
    let ch ← at' h.s h.pos
    if isH5White ch then stateBeforeAttributeName callDepth { h with pos := h.pos + 1 }
    else if ch == 47 then stateSelfClosingStartTag callDepth { h with pos := h.pos + 1 }
    else if ch == 62 then
      let start ← offFrom h.s h.pos
      return (true, emit h start 1 .tagNameClose (h.pos + 1) .data)
    else stateBeforeAttributeName callDepth h

mutual
def stateEndTagOpen (d : Nat) (h : H) : M (Bool × H) :=
  match d with
  | 0 => .error .depth
  | d + 1 =>
    if h.pos ≥ h.s.length then return (false, h)
    else do
      let ch ← at' h.s h.pos
      if ch == 62 then stateData d h
      else if isAlpha ch then stateTagName h
      else stateBogusComment { h with isClose := false }

def stateTagOpen (d : Nat) (h : H) : M (Bool × H) :=
  match d with
  | 0 => .error .depth
  | d + 1 =>
    if h.pos ≥ h.s.length then return (false, h)
    else do
      let ch ← at' h.s h.pos
      if ch == 33 then stateMarkupDeclarationOpen { h with pos := h.pos + 1 }
      else if ch == 47 then stateEndTagOpen d { h with pos := h.pos + 1, isClose := true }
      else if ch == 63 then stateBogusComment { h with pos := h.pos + 1 }
      else if ch == 37 then stateBogusComment2 { h with pos := h.pos + 1 }
      else if isAlpha ch then stateTagName h
      else if ch == 0 then stateTagName h
      else
        if h.pos == 0 then stateData d h
        else return (true, emit h (h.pos - 1) 1 .dataText h.pos .data)

def stateData (d : Nat) (h : H) : M (Bool × H) :=
  match d with
  | 0 => .error .depth
  | d + 1 => do
    let start ← offFrom h.s h.pos
    match indexByte (h.s.drop h.pos) 60 with
    | none =>
      let h' := { h with tokStart := start, tokLen := h.s.length - h.pos, tokType := .dataText, state := .eof }
      return (h'.tokLen != 0, h')
    | some i =>
      let h' := emit h start i .dataText (h.pos + i + 1) .tagOpen
      if i == 0 then stateTagOpen d h' else return (true, h')
end

def dataDepth : Nat := 6

def init (s : Bytes) (ctx : Nat) : H :=
  { s := s, state := match ctx with
      | 0 => .data | 1 => .beforeAttrName | 2 => .valSingle | 3 => .valDouble | _ => .valBack }

def next (h : H) : M (Bool × H) :=
  match h.state with
  | .eof => return (false, h)
  | .data => stateData dataDepth h
  | .tagOpen => stateTagOpen dataDepth h
  | .beforeAttrName => stateBeforeAttributeName callDepth h
  | .selfClosing => stateSelfClosingStartTag callDepth h
  | .tagNameClose => stateTagNameClose h
  | .afterAttrName => stateAfterAttributeName h
  | .beforeAttrValue => stateBeforeAttributeValue h
  | .afterAttrValueQuoted => stateAfterAttributeValueQuotedState h
  | .valSingle => stateAttributeValueQuote 39 h
  | .valDouble => stateAttributeValueQuote 34 h
  | .valBack => stateAttributeValueQuote 96 h

structure Tok where
  ty : Ty
  off : Nat
  len : Nat
deriving Repr, DecidableEq

def tokensLoop (h : H) : Nat → M (List Tok)
  | 0 => .error .fuel
  | fuel + 1 => do
    let (more, h') ← next h
    if more then
      let rest ← tokensLoop h' fuel
      return { ty := h'.tokType, off := h'.tokStart, len := h'.tokLen } :: rest
    else return []

/-- loop fuel: the progress measure `3·(bytes left) + rank(state)` starts at most at `3|s|+3` -/
def tokFuel (n : Nat) : Nat := 3 * n + 4

def tokens (s : Bytes) (ctx : Nat) : M (List Tok) := tokensLoop (init s ctx) (tokFuel s.length)

end LibInj.H5
