import LibInj.Sqli.Check
import LibInj.Sqli.Raw
import LibInj.Xss.IsXSS
import LibInj.Spec.SqliGrammar
import LibInj.Spec.SqliGrammar2
/-! Line-protocol driver: one operation per input line, one canonical observation per output line.
The Go harness prints the same canonical form from the real package; the two streams are diffed. -/
open LibInj LibInj.Sqli LibInj.H5 LibInj.Xss

def hexVal (c : UInt8) : UInt8 :=
  if c ≥ 48 && c ≤ 57 then c - 48 else if c ≥ 97 && c ≤ 102 then c - 87 else 0

def unhexGo : List UInt8 → List UInt8
  | a :: b :: t => (hexVal a * 16 + hexVal b) :: unhexGo t
  | _ => []

/-- `-` stands for the empty string -/
def unhex (s : String) : List UInt8 := if s == "-" then [] else unhexGo s.toUTF8.toList

def hexDigit (n : UInt8) : Char := if n < 10 then Char.ofNat (48 + n.toNat) else Char.ofNat (87 + n.toNat)
def tohex (b : Bytes) : String := String.ofList (b.flatMap fun c => [hexDigit (c / 16), hexDigit (c % 16)])

def errName : Err → String
  | .oob => "oob" | .slice => "slice" | .tv => "tv" | .neg => "neg" | .fuel => "fuel" | .depth => "depth"
  | .parser => "parser"

def showM {α} (f : α → String) : M α → String
  | .ok a => f a
  | .error e => s!"ERR {errName e}"

def fmtTok (t : Token) : String :=
  s!"{t.cat},{t.pos},{t.len},{tohex t.val},{t.strOpen},{t.strClose},{t.count}"

def opTok (flags : Nat) (b : Bytes) : String :=
  showM (fun (r : List RawTok × State) =>
      String.intercalate ";" ((r.1.map fun t => s!"{fmtTok t.tok},{t.before},{t.after}") ++
        [s!"S {r.2.toks} {r.2.ddx} {r.2.hash} {r.2.pos}"]))
    (rawTokens b flags)

def opFp (flags : Nat) (b : Bytes) : String :=
  showM id (do
    let (n, s) ← fold (sqliInit b flags)
    let toks ← (List.range n).mapM (fun i => do return fmtTok (← tvGet s i))
    let s2 ← fingerprint b flags
    let v ← checkFingerprint s2
    return s!"{String.intercalate ";" toks}|{tohex s2.fingerprint}|{blacklist s2}|{v}|{s2.toks} {s2.folds} {s2.ddx} {s2.hash}")

def opIs (b : Bytes) : String :=
  showM (fun (r : Bool × Bytes) => s!"{r.1} {tohex r.2}") (isSQLi b)

def opStrCore (offset : Nat) (d : UInt8) (b : Bytes) : String :=
  showM (fun (r : Lex) => s!"{fmtTok r.tok},{r.next}") (parseStringCore {} b offset d)

def fmtH5 (ts : List Tok) : String :=
  String.intercalate ";" (ts.map fun t => s!"{t.ty.toNat},{t.off},{t.len}")

/-- the grammar lists of C03 (`Spec/SqliGrammar.lean`), for comparison with the harness's lists -/
def opC03List (kind : Bytes) : String :=
  let l : List Bytes :=
    if kind == [115, 107] then Spec.SqliGrammar.skeletons.map (Spec.SqliGrammar.join [32])
    else if kind == [112, 114] then Spec.SqliGrammar.prefixes
    else if kind == [116, 108] then Spec.SqliGrammar.tails
    else if kind == [115, 112] then Spec.SqliGrammar.seps
    else if kind == [112, 115] then Spec.SqliGrammar.parenSkeletons.map (Spec.SqliGrammar.join [32])
    else if kind == [112, 112] then Spec.SqliGrammar.parenPrefixes
    else if kind == [116, 114] then Spec.SqliGrammar.truncations
    else []
  String.intercalate ";" (l.map fun b => if b.isEmpty then "-" else tohex b)

def run (line : String) : String :=
  match line.trimAscii.toString.splitOn " " with
  | ["tok", flags, hex] => opTok flags.toNat! (unhex hex)
  | ["fp", flags, hex] => opFp flags.toNat! (unhex hex)
  | ["is", hex] => opIs (unhex hex)
  | ["c03l", hex] => opC03List (unhex hex)
  | ["strcore", off, d, hex] => opStrCore off.toNat! d.toNat!.toUInt8 (unhex hex)
  | ["h5", ctx, hex] => showM fmtH5 (tokens (unhex hex) ctx.toNat!)
  | ["xc", ctx, hex] => showM toString (isXSSCtx (unhex hex) ctx.toNat!)
  | ["x", hex] => showM toString (isXSS (unhex hex))
  | ["dec", hex] => showM (fun (p : Int × Nat) => s!"{p.1} {p.2}") (htmlDecodeByteAt (unhex hex))
  | ["url", hex] => showM toString (isBlackURL (unhex hex))
  | ["tag", hex] => toString (isBlackTag (unhex hex))
  | ["attr", hex] => toString (isBlackAttr (unhex hex))
  | ["esw", a, hex] => showM toString (htmlEncodeStartsWith (unhex a) (unhex hex))
  | _ => "BAD-OP"

partial def loop (h : IO.FS.Stream) (out : IO.FS.Stream) : IO Unit := do
  let line ← h.getLine
  if line.isEmpty then return ()
  if line == "flush\n" then out.flush   -- marker line of the fuzz workers: answer what has been asked so far
  else out.putStrLn (run line)
  loop h out

def main : IO Unit := do
  loop (← IO.getStdin) (← IO.getStdout)
