import Probe.H5
namespace H5

/-! Calibration: the unfixed CDATA guard panics (kernel-checked witness), the fixed one is total. -/

def w : Bytes := "]]]".toUTF8.toList

theorem cdata_buggy_panics :
    (match cdataLoop true { s := [60,33,91,67,68,65,84,65,91,93,93,93], pos := 9 } 9 13 with
      | .error .oob => true | _ => false) = true := by decide

theorem indexByte_lt {s : Bytes} {c : UInt8} {i : Nat} (h : indexByte s c = some i) : i < s.length := by
  induction s generalizing i with
  | nil => simp [indexByte] at h
  | cons x xs ih =>
    simp only [indexByte] at h
    split at h
    · cases h; simp
    · cases hi : indexByte xs c with
      | none => simp [hi] at h
      | some j => simp [hi] at h; subst h; have := ih hi; simp; omega

theorem at'_ok {s : Bytes} {i : Nat} (h : i < s.length) : at' s i = .ok s[i] := by
  simp [at', List.getElem?_eq_getElem h]

theorem sliceFrom_ok {s : Bytes} {i : Nat} (h : i ≤ s.length) : sliceFrom s i = .ok i := by
  simp [sliceFrom, h]

/-- result well-formedness shared by all states -/
def Good (h : H) (r : M (Bool × H)) : Prop :=
  ∃ b h', r = .ok (b, h') ∧ h'.s = h.s ∧ h'.pos ≤ h'.s.length ∧ h.pos ≤ h'.pos ∧
    (b = true → h'.tokStart + h'.tokLen ≤ h'.s.length)

theorem cdataLoop_good (h : H) (hp : h.pos ≤ h.s.length) :
    ∀ fuel pos, h.pos ≤ pos → pos ≤ h.s.length → h.s.length - pos < fuel →
      Good h (cdataLoop false h pos fuel) := by
  intro fuel
  induction fuel with
  | zero => intro pos _ _ hf; omega
  | succ fuel ih =>
    intro pos h1 h2 hf
    unfold cdataLoop
    simp only [sliceFrom_ok h2, sliceFrom_ok hp, bind, Except.bind, pure, Except.pure]
    cases hi : indexByte (h.s.drop pos) 93 with
    | none => simp [Good]; omega
    | some index =>
      have hlt := indexByte_lt hi
      simp at hlt
      simp only [Bool.false_eq_true, ↓reduceIte]
      split
      · simp [Good]; omega
      · rename_i hg
        have h3 : pos + index + 2 < h.s.length := by omega
        rw [at'_ok (by omega : pos + index + 1 < h.s.length)]
        simp only []
        by_cases hc1 : h.s[pos + index + 1] = 93
        · simp only [hc1, beq_self_eq_true, ite_true, at'_ok h3]
          by_cases hc2 : h.s[pos + index + 2] = 62
          · simp [hc2, Good, emit]; omega
          · have : (h.s[pos + index + 2] == 62) = false := by simpa using hc2
            simp only [this, Bool.false_eq_true, ite_false]
            exact ih (pos + index + 1) (by omega) (by omega) (by omega)
        · have : (h.s[pos + index + 1] == 93) = false := by simpa using hc1
          simp only [this, Bool.false_eq_true, ite_false]
          exact ih (pos + index + 1) (by omega) (by omega) (by omega)

#print axioms cdataLoop_good
#print axioms cdata_buggy_panics
end H5
