import Probe.H5
open H5

def hexVal (c : UInt8) : UInt8 :=
  if c ≥ 48 && c ≤ 57 then c - 48 else if c ≥ 97 && c ≤ 102 then c - 87 else 0

def unhex (s : String) : List UInt8 :=
  let rec go : List UInt8 → List UInt8
    | a :: b :: t => (hexVal a * 16 + hexVal b) :: go t
    | _ => []
  go s.toUTF8.toList

def fmtToks (ts : List Tok) : String :=
  String.intercalate ";" (ts.map fun t => s!"{t.ty.toNat},{t.off},{t.len}")

partial def loop (h : IO.FS.Stream) (out : IO.FS.Stream) : IO Unit := do
  let line ← h.getLine
  if line.isEmpty then return ()
  match line.trimAscii.toString.splitOn " " with
  | [ctx, hex] =>
    let bs := unhex hex
    match tokens bs ctx.toNat! with
    | .ok ts => out.putStrLn (fmtToks ts)
    | .error e => out.putStrLn s!"ERR {repr e}"
  | [ctx] =>
    match tokens [] ctx.toNat! with
    | .ok ts => out.putStrLn (fmtToks ts)
    | .error e => out.putStrLn s!"ERR {repr e}"
  | _ => out.putStrLn "bad"
  loop h out

def main : IO Unit := do
  loop (← IO.getStdin) (← IO.getStdout)
