import Probe.H5Proofs
namespace H5

theorem spanLen_le (p : UInt8 → Bool) (s : Bytes) : spanLen p s ≤ s.length := by
  induction s with
  | nil => simp [spanLen]
  | cons x xs ih => simp only [spanLen]; split <;> simp <;> omega

theorem getElem?_some_lt {s : Bytes} {i : Nat} {c : UInt8} (h : s[i]? = some c) : i < s.length := by
  rcases Nat.lt_or_ge i s.length with h' | h'
  · exact h'
  · simp [List.getElem?_eq_none h'] at h

theorem stateTagName_good (h : H) (hp : h.pos ≤ h.s.length) : Good h (stateTagName h) := by
  unfold stateTagName
  simp only [sliceFrom_ok hp, bind, Except.bind, pure, Except.pure]
  have hs := spanLen_le (fun c => !(isH5White c || c == 47 || c == 62)) (h.s.drop h.pos)
  generalize spanLen (fun c => !(isH5White c || c == 47 || c == 62)) (h.s.drop h.pos) = n at hs ⊢
  simp at hs
  split
  · simp [Good]; omega
  · rename_i ch hch
    have := getElem?_some_lt hch
    split
    · simp [Good, emit]; omega
    · split
      · simp [Good, emit]; omega
      · split <;> simp [Good, emit] <;> omega

theorem stateAttributeName_good (h : H) (hp : h.pos < h.s.length) : Good h (stateAttributeName h) := by
  unfold stateAttributeName
  simp only [sliceFrom_ok (Nat.le_of_lt hp), bind, Except.bind, pure, Except.pure]
  have hs := spanLen_le (fun c => !(isH5White c || c == 47 || c == 61 || c == 62)) (h.s.drop (h.pos + 1))
  generalize spanLen (fun c => !(isH5White c || c == 47 || c == 61 || c == 62)) (h.s.drop (h.pos + 1)) = n at hs ⊢
  simp at hs
  split
  · simp [Good, emit]; omega
  · rename_i ch hch
    have := getElem?_some_lt hch
    repeat' split
    all_goals (simp [Good, emit]; omega)

theorem stateBogusComment_good (h : H) (hp : h.pos ≤ h.s.length) : Good h (stateBogusComment h) := by
  unfold stateBogusComment
  simp only [sliceFrom_ok hp, bind, Except.bind, pure, Except.pure]
  split
  · simp [Good, emit]; omega
  · rename_i i hi
    have := indexByte_lt hi
    simp at this
    simp [Good, emit]; omega

end H5
