import Probe.Sqli
open Sqli

def hexVal (c : UInt8) : UInt8 :=
  if c ≥ 48 && c ≤ 57 then c - 48 else if c ≥ 97 && c ≤ 102 then c - 87 else 0

def unhex (s : String) : List UInt8 :=
  let rec go : List UInt8 → List UInt8
    | a :: b :: t => (hexVal a * 16 + hexVal b) :: go t
    | _ => []
  go s.toUTF8.toList

def hexDigit (n : UInt8) : Char := if n < 10 then Char.ofNat (48 + n.toNat) else Char.ofNat (87 + n.toNat)
def tohex (b : Bytes) : String := String.ofList (b.flatMap fun c => [hexDigit (c / 16), hexDigit (c % 16)])

def fmtTok (t : Token) : String :=
  s!"{t.cat},{t.pos},{t.len},{tohex t.val},{t.strOpen},{t.strClose},{t.count}"

def tokAll (s : State) : Nat → List String → M (List String)
  | 0, _ => .error .fuel
  | fuel + 1, acc => do
    let before := s.pos
    let (more, s) ← tokenize s
    if more then
      let t ← tvGet s s.cur
      tokAll s fuel (s!"{fmtTok t},{before},{s.pos}" :: acc)
    else return (s!"stats {s.toks} {s.ddx} {s.hash}" :: acc).reverse

def run (line : String) : String :=
  match line.trimAscii.toString.splitOn " " with
  | "tok" :: flags :: rest =>
    let b := unhex (rest.headD "")
    match tokAll (sqliInit b flags.toNat!) (b.length + 3) [] with
    | .ok l => String.intercalate ";" l
    | .error e => s!"ERR {repr e}"
  | "fp" :: flags :: rest =>
    let b := unhex (rest.headD "")
    match (do
      let s := sqliInit b flags.toNat!
      let (n, s) ← fold s
      let toks ← (List.range n).mapM (fun i => do return fmtTok (← tvGet s i))
      let s2 ← fingerprint b flags.toNat!
      let v ← checkFingerprint true s2
      return s!"{String.intercalate ";" toks}|{tohex s2.fingerprint}|{v}|{s2.toks} {s2.folds} {s2.ddx} {s2.hash}") with
    | .ok l => l
    | .error e => s!"ERR {repr e}"
  | "is" :: rest =>
    let b := unhex (rest.headD "")
    match isSQLi true b with
    | .ok (r, fp) => s!"{r} {tohex fp}"
    | .error e => s!"ERR {repr e}"
  | _ => "bad"

partial def loop (h : IO.FS.Stream) (out : IO.FS.Stream) : IO Unit := do
  let line ← h.getLine
  if line.isEmpty then return ()
  out.putStrLn (run line)
  loop h out

def main : IO Unit := do
  loop (← IO.getStdin) (← IO.getStdout)
