namespace Probe

abbrev Bytes := List UInt8

inductive Err | oob | fuel
deriving Repr, DecidableEq

def indexByte (s : Bytes) (c : UInt8) : Option Nat :=
  match s with
  | [] => none
  | x :: xs => if x == c then some 0 else (indexByte xs c).map (· + 1)

def trailingBs (s : Bytes) : Nat := (s.reverse.takeWhile (· == 92)).length

def isBackslashEscaped (p : Bytes) : Bool := trailingBs p % 2 == 1

def coreLoop (content : Bytes) (d : UInt8) (k : Nat) (fuel : Nat) : Except Err (Nat × Bool × Nat) :=
  match fuel with
  | 0 => .error .fuel
  | fuel + 1 =>
    match indexByte (content.drop k) d with
    | none => .ok (content.length, false, content.length)
    | some i =>
      let q := k + i
      if isBackslashEscaped (content.take q) then coreLoop content d (q + 1) fuel
      else if content[q+1]? = some d then coreLoop content d (q + 2) fuel
      else .ok (q, true, q + 1)

def scan (d : UInt8) : Bytes → Bool → Nat → Option Nat
  | [], _, _ => none
  | c :: rest, odd, n =>
    if c == d then
      if odd then scan d rest false (n + 1)
      else match rest with
        | c' :: rest' => if c' == d then scan d rest' false (n + 2) else some n
        | [] => some n
    else if c == 92 then scan d rest (!odd) (n + 1)
    else scan d rest false (n + 1)

def outOf (content : Bytes) : Option Nat → Nat × Bool × Nat
  | none => (content.length, false, content.length)
  | some q => (q, true, q + 1)

def specCore (content : Bytes) (d : UInt8) : Nat × Bool × Nat := outOf content (scan d content false 0)

theorem trailingBs_snoc (s : Bytes) (c : UInt8) :
    trailingBs (s ++ [c]) = if c == 92 then trailingBs s + 1 else 0 := by
  simp [trailingBs, List.takeWhile_cons]
  split <;> simp_all

theorem take_succ_of_lt (s : Bytes) (k : Nat) (h : k < s.length) :
    s.take (k+1) = s.take k ++ [s[k]] := List.take_succ_eq_append_getElem h

theorem esc_snoc (s : Bytes) (c : UInt8) :
    isBackslashEscaped (s ++ [c]) = if c == 92 then !isBackslashEscaped s else false := by
  unfold isBackslashEscaped
  rw [trailingBs_snoc]
  split
  · generalize trailingBs s = n
    rcases Nat.mod_two_eq_zero_or_one n with h | h <;> simp [Nat.add_mod, h]
  · simp

theorem scan_cons (d c : UInt8) (rest : Bytes) (odd : Bool) (n : Nat) :
    scan d (c :: rest) odd n =
      if c == d then
        if odd then scan d rest false (n + 1)
        else match rest with
          | c' :: rest' => if c' == d then scan d rest' false (n + 2) else some n
          | [] => some n
      else if c == 92 then scan d rest (!odd) (n + 1)
      else scan d rest false (n + 1) := by
  cases rest <;> simp only [scan]

/-- the automaton walks over the non-delimiter bytes that IndexByte jumps over -/
theorem scan_skip (content : Bytes) (d : UInt8) (hd : d ≠ 92) :
    ∀ (i k : Nat), indexByte (content.drop k) d = some i →
      scan d (content.drop k) (isBackslashEscaped (content.take k)) k
        = scan d (content.drop (k+i)) (isBackslashEscaped (content.take (k+i))) (k+i) := by
  intro i
  induction i with
  | zero => intro k _; simp
  | succ i ih =>
    intro k h
    have hk : k < content.length := by
      rcases Nat.lt_or_ge k content.length with h' | h'
      · exact h'
      · simp [List.drop_eq_nil_of_le h', indexByte] at h
    rw [List.drop_eq_getElem_cons hk] at h ⊢
    by_cases hc : (content[k] == d) = true
    · simp [indexByte, hc] at h
    · have hne' : (content[k] == d) = false := by simpa using hc
      cases hi : indexByte (List.drop (k + 1) content) d with
      | none => simp [indexByte, hne', hi] at h
      | some j =>
        simp [indexByte, hne', hi] at h
        subst h
        have := ih (k+1) hi
        rw [scan_cons, hne']
        have e : k + (j + 1) = k + 1 + j := by omega
        rw [e, ← this, take_succ_of_lt content k hk, esc_snoc]
        by_cases hb : content[k] = 92
        · simp [hb]
        · simp [hb]

theorem scan_none (content : Bytes) (d : UInt8) :
    ∀ (k : Nat) (odd : Bool) (n : Nat), indexByte (content.drop k) d = none →
      scan d (content.drop k) odd n = none := by
  intro k
  generalize content.drop k = r
  induction r with
  | nil => intros; simp [scan]
  | cons x xs ih =>
    intro odd n h
    by_cases hc : (x == d) = true
    · simp [indexByte, hc] at h
    · have hne' : (x == d) = false := by simpa using hc
      have hx : indexByte xs d = none := by
        cases hi : indexByte xs d <;> simp [indexByte, hne', hi] at h ⊢
      rw [scan_cons, hne']
      simp only [Bool.false_eq_true, ite_false]
      split <;> exact ih _ _ hx

theorem indexByte_some_lt (s : Bytes) (d : UInt8) (i : Nat) (h : indexByte s d = some i) :
    ∃ hlt : i < s.length, s[i] = d := by
  induction s generalizing i with
  | nil => simp [indexByte] at h
  | cons x xs ih =>
    by_cases hc : (x == d) = true
    · simp [indexByte, hc] at h; subst h; exact ⟨by simp, by simpa using hc⟩
    · have hne' : (x == d) = false := by simpa using hc
      cases hi : indexByte xs d with
      | none => simp [indexByte, hne', hi] at h
      | some j =>
        simp [indexByte, hne', hi] at h; subst h
        obtain ⟨h1, h2⟩ := ih j hi
        exact ⟨by simp; omega, by simpa using h2⟩

theorem coreLoop_scan (content : Bytes) (d : UInt8) (hd : d ≠ 92) :
    ∀ (fuel k : Nat), k ≤ content.length → content.length - k < fuel →
      coreLoop content d k fuel
        = .ok (outOf content (scan d (content.drop k) (isBackslashEscaped (content.take k)) k)) := by
  intro fuel
  induction fuel with
  | zero => intro k _ h; omega
  | succ fuel ih =>
    intro k hk hf
    unfold coreLoop
    cases hi : indexByte (content.drop k) d with
    | none => simp [scan_none content d k _ _ hi, outOf]
    | some i =>
      obtain ⟨hlt, hq⟩ := indexByte_some_lt _ _ _ hi
      simp at hlt hq
      have hq' : k + i < content.length := by omega
      rw [scan_skip content d hd i k hi]
      simp only []
      rw [List.drop_eq_getElem_cons hq']
      by_cases hesc : isBackslashEscaped (content.take (k+i)) = true
      · rw [if_pos hesc, ih (k+i+1) (by omega) (by omega), take_succ_of_lt content (k+i) hq']
        rw [scan_cons, esc_snoc]
        simp [hq, hd, hesc]
      · rw [if_neg hesc]
        have hesc' : isBackslashEscaped (content.take (k+i)) = false := by simpa using hesc
        by_cases hnext : content[k+i+1]? = some d
        · have hn2 : k + i + 1 < content.length := by
            rcases Nat.lt_or_ge (k+i+1) content.length with h' | h'
            · exact h'
            · simp [List.getElem?_eq_none h'] at hnext
          have hd2 : content[k+i+1] = d := by
            simpa [List.getElem?_eq_getElem hn2] using hnext
          rw [if_pos hnext, ih (k+i+2) (by omega) (by omega)]
          rw [List.drop_eq_getElem_cons hn2]
          have e : k + i + 2 = (k + i + 1) + 1 := by omega
          rw [e, take_succ_of_lt content (k+i+1) hn2]
          rw [scan_cons, esc_snoc]
          simp [hq, hd2, hd, hesc']
        · rw [if_neg hnext]
          rcases Nat.lt_or_ge (k+i+1) content.length with h' | h'
          · rw [List.drop_eq_getElem_cons h']
            have hne : (content[k+i+1] == d) = false := by
              simp [List.getElem?_eq_getElem h'] at hnext
              simpa using hnext
            rw [scan_cons]
            simp [hq, hesc', hne, outOf]
          · rw [scan_cons]
            simp [List.drop_eq_nil_of_le h', hq, hesc', outOf]

/-- C18 (quoted strings): the IndexByte-jumping loop of parseStringCore computes exactly the
    one-pass "first real terminator" automaton, with fuel |content|+1 and never errs. -/
theorem coreLoop_spec (content : Bytes) (d : UInt8) (hd : d ≠ 92) :
    coreLoop content d 0 (content.length + 1) = .ok (specCore content d) := by
  have := coreLoop_scan content d hd (content.length + 1) 0 (by omega) (by omega)
  simpa [specCore, isBackslashEscaped, trailingBs] using this

#print axioms coreLoop_spec
end Probe
