import Probe.Table
import Std.Data.HashMap
/-! Prototype: faithful model of the SQLi pipeline (with fixes F4-F7 applied; F8 selectable). -/
namespace Sqli

abbrev Bytes := List UInt8

inductive Err | oob | slice | fuel | neg | tv
deriving Repr, DecidableEq, Inhabited

abbrev M := Except Err

def at' (s : Bytes) (i : Nat) : M UInt8 :=
  match s[i]? with
  | some b => .ok b
  | none => .error .oob

/-- `s[i] == c`, checked -/
def byteIs (s : Bytes) (i : Nat) (c : UInt8) : M Bool := do return (← at' s i) == c
def byteNe (s : Bytes) (i : Nat) (c : UInt8) : M Bool := do return (← at' s i) != c
/-- pure guard, to be combined with the short-circuit `<&&>` / `<||>` -/
abbrev g (b : Bool) : M Bool := pure b

/-- Go s[a:b] -/
def slice (s : Bytes) (a b : Nat) : M Bytes :=
  if a ≤ b ∧ b ≤ s.length then .ok ((s.drop a).take (b - a)) else .error .slice

/-- Go s[a:] -/
def sliceFrom (s : Bytes) (a : Nat) : M Bytes :=
  if a ≤ s.length then .ok (s.drop a) else .error .slice

def indexByte (s : Bytes) (c : UInt8) : Option Nat :=
  match s with
  | [] => none
  | x :: xs => if x == c then some 0 else (indexByte xs c).map (· + 1)

def isPrefix : Bytes → Bytes → Bool
  | [], _ => true
  | _ :: _, [] => false
  | a :: as, b :: bs => a == b && isPrefix as bs

/-- strings.Index -/
def indexOf (h n : Bytes) : Option Nat :=
  if isPrefix n h then some 0 else
  match h with
  | [] => none
  | _ :: t => (indexOf t n).map (· + 1)

def spn (p : UInt8 → Bool) : Bytes → Nat
  | [] => 0
  | x :: xs => if p x then spn p xs + 1 else 0

def mem (set : Bytes) (c : UInt8) : Bool := set.contains c

def bs (s : String) : Bytes := s.toUTF8.toList

/-- comparison-exact model of strings.ToUpper against ASCII-only keys (see DESIGN: ı→I, ſ→S) -/
def goUpper : Bytes → Bytes
  | [] => []
  | 0xC4 :: 0xB1 :: t => 73 :: goUpper t
  | 0xC5 :: 0xBF :: t => 83 :: goUpper t
  | c :: t => (if 97 ≤ c && c ≤ 122 then c - 32 else c) :: goUpper t

def keyNat (w : Bytes) : Nat := w.foldl (fun a c => a * 256 + c.toNat) 0

def kwMap : Std.HashMap (Nat × Nat) Nat :=
  Std.HashMap.ofList (Probe.kwAll.map fun e => ((e.1, e.2.1), e.2.2))

def searchKeyword (w : Bytes) : UInt8 :=
  let u := goUpper w
  match kwMap.get? (u.length, keyNat u) with
  | some v => v.toUInt8
  | none => 0

def toUpperCmp (a : String) (b : Bytes) : Bool := bs a == goUpper b

structure Token where
  pos : Nat := 0
  len : Nat := 0
  count : Nat := 0
  cat : UInt8 := 0
  strOpen : UInt8 := 0
  strClose : UInt8 := 0
  val : Bytes := []
deriving Repr, DecidableEq, Inhabited

/-- result of one byte-dispatched lexer, positions relative to the dispatch offset -/
structure Lex where
  tok : Token := {}
  next : Nat
  ddx : Nat := 0
  hash : Nat := 0
deriving Repr

def tokenSize : Nat := 32
def maxTokens : Nat := 5

/-- sqliToken.assign -/
def assign (t : Token) (cat : UInt8) (pos length : Nat) (value : Bytes) : M Token := do
  let last := if length < tokenSize then length else tokenSize - 1
  let v ← slice value 0 last
  return { t with cat := cat, pos := pos, len := last, val := v }

def isWhite (c : UInt8) : Bool :=
  c == 32 || c == 9 || c == 10 || c == 11 || c == 12 || c == 13 || c == 0xA0 || c == 0

def wordAccept : Bytes := bs " []{}<>:\\?=@!#~+-*/&|^%(),';\t\n\x0b\x0c\r\"" ++ [0xA0, 0]
def varAccept : Bytes := bs " <>:\\?=@!#~+-*/&|^%(),';\t\n\x0b\x0c\r'`\""

def flagQuoteNone := 1
def flagQuoteSingle := 2
def flagQuoteDouble := 4
def flagAnsi := 8
def flagMysql := 16

def hasFlag (flags f : Nat) : Bool := flags &&& f != 0

def trailingBs (s : Bytes) : Nat := (s.reverse.takeWhile (· == 92)).length
def isBackslashEscaped (p : Bytes) : Bool := trailingBs p % 2 == 1

/-- the closing-quote loop; k = len(content) - len(str) -/
def coreLoop (content : Bytes) (d : UInt8) (k : Nat) : Nat → M (Option Nat)
  | 0 => .error .fuel
  | fuel + 1 =>
    match indexByte (content.drop k) d with
    | none => .ok none
    | some i =>
      let q := k + i
      if isBackslashEscaped (content.take q) then coreLoop content d (q + 1) fuel
      else if content[q+1]? = some d then coreLoop content d (q + 2) fuel
      else .ok (some q)

/-- parseStringCore relative to `rest = s[pos:]` -/
def parseStringCore (t : Token) (rest : Bytes) (offset : Nat) (delim : UInt8) : M Lex := do
  let content ← sliceFrom rest offset
  let t := { t with strOpen := if offset > 0 then delim else 0 }
  match ← coreLoop content delim 0 (content.length + 1) with
  | none =>
    let t ← assign t 115 offset (rest.length - offset) content
    return { tok := { t with strClose := 0 }, next := rest.length }
  | some q =>
    let t ← assign t 115 offset q content
    return { tok := { t with strClose := delim }, next := offset + q + 1 }

def parseWhite (_ : Bytes) : M Lex := return { next := 1 }
def parseOperator1 (rest : Bytes) : M Lex := do
  return { tok := ← assign {} 111 0 1 rest, next := 1 }
def parseOther (rest : Bytes) : M Lex := do
  return { tok := ← assign {} 63 0 1 rest, next := 1 }
def parseByte (rest : Bytes) : M Lex := do
  return { tok := ← assign {} (← at' rest 0) 0 1 rest, next := 1 }

def parseEolComment (rest : Bytes) : M Lex := do
  match indexByte rest 10 with
  | none => return { tok := ← assign {} 99 0 rest.length rest, next := rest.length }
  | some i => return { tok := ← assign {} 99 0 i rest, next := i + 1 }

def parseHash (flags : Nat) (rest : Bytes) : M Lex := do
  if hasFlag flags flagMysql then
    let r ← parseEolComment rest
    return { r with hash := 2 }
  else return { tok := ← assign {} 111 0 1 (bs "#"), next := 1, hash := 1 }

def parseDash (flags : Nat) (rest : Bytes) : M Lex := do
  let n := rest.length
  if ← (g (2 < n) <&&> byteIs rest 1 45 <&&> (do return isWhite (← at' rest 2))) then parseEolComment rest
  else if ← (g (2 == n) <&&> byteIs rest 1 45) then parseEolComment rest
  else if ← (g (1 < n) <&&> byteIs rest 1 45 <&&> g (hasFlag flags flagAnsi)) then
    let r ← parseEolComment rest
    return { r with ddx := 1 }
  else return { tok := ← assign {} 111 0 1 (bs "-"), next := 1 }

def contains (h n : Bytes) : Bool := (indexOf h n).isSome

def parseSlash (rest : Bytes) : M Lex := do
  let n := rest.length
  if ← (g (1 == n) <||> byteNe rest 1 42) then parseOperator1 rest
  else
    let tail ← sliceFrom rest 2
    let index := indexOf tail (bs "*/")
    let length := match index with | none => n | some i => 2 + i + 2
    let evil ← (match index with
      | some i => do
        let inner ← slice rest 2 (2 + i + 1)
        if contains inner (bs "/*") then pure true
        else if 2 < n then pure ((← at' rest 2) == 33) else pure false
      | none => if 2 < n then do pure ((← at' rest 2) == 33) else pure false)
    return { tok := ← assign {} (if evil then 88 else 99) 0 length rest, next := length }

def parseBackSlash (rest : Bytes) : M Lex := do
  if ← (g (1 < rest.length) <&&> byteIs rest 1 78) then return { tok := ← assign {} 49 0 2 rest, next := 2 }
  else return { tok := ← assign {} 92 0 1 rest, next := 1 }

def parseOperator2 (rest : Bytes) : M Lex := do
  let n := rest.length
  if 1 ≥ n then parseOperator1 rest
  else if ← (g (2 < n) <&&> byteIs rest 0 60 <&&> byteIs rest 1 61 <&&> byteIs rest 2 62) then
    return { tok := ← assign {} 111 0 3 rest, next := 3 }
  else
    let ch := searchKeyword (← slice rest 0 2)
    if ch != 0 then return { tok := ← assign {} ch 0 2 rest, next := 2 }
    else if (← at' rest 0) == 58 then return { tok := ← assign {} 58 0 1 rest, next := 1 }
    else parseOperator1 rest

def parseString (t : Token) (rest : Bytes) : M Lex := do
  parseStringCore t rest 1 (← at' rest 0)

def splitLoop (rest : Bytes) (t : Token) : Nat → Nat → M (Option Lex)
  | _, 0 => .ok none
  | i, fuel + 1 =>
    if i < t.len then do
      let delim ← at' t.val i
      if delim == 46 || delim == 96 then
        let ch := searchKeyword (← slice t.val 0 i)
        if ch != 0 && ch != 110 then
          return some { tok := ← assign {} ch 0 i rest, next := i }
        else splitLoop rest t (i + 1) fuel
      else splitLoop rest t (i + 1) fuel
    else .ok none

def parseWord (rest : Bytes) : M Lex := do
  let length := spn (fun c => !mem wordAccept c) rest
  let t ← assign {} 110 0 length rest
  match ← splitLoop rest t 0 (t.len + 1) with
  | some r => return r
  | none =>
    if length < tokenSize then
      let ch := searchKeyword (← slice t.val 0 length)
      return { tok := { t with cat := if ch == 0 then 110 else ch }, next := length }
    else return { tok := t, next := length }

def shift (r : Lex) (p : Nat) : Lex := { r with tok := { r.tok with pos := r.tok.pos + p }, next := r.next + p }

def parseTick (t : Token) (rest : Bytes) : M Lex := do
  let r ← parseStringCore t rest 1 96
  let ch := searchKeyword (← slice r.tok.val 0 r.tok.len)
  return { r with tok := { r.tok with cat := if ch == 102 then 102 else 110 } }

def parseVar (rest : Bytes) : M Lex := do
  let n := rest.length
  let (p, count) := if 1 < n && rest[1]? == some 64 then (2, 2) else (1, 1)
  let t : Token := { count := count }
  if p < n then
    let c ← at' rest p
    if c == 96 then
      let r ← parseTick t (← sliceFrom rest p)
      return shift { r with tok := { r.tok with cat := 118 } } p
    else if c == 39 || c == 34 then
      let r ← parseString t (← sliceFrom rest p)
      return shift { r with tok := { r.tok with cat := 118 } } p
    else
      let tail ← sliceFrom rest p
      let length := spn (fun c => !mem varAccept c) tail
      return { tok := ← assign t 118 p length tail, next := p + length }
  else
    let tail ← sliceFrom rest p
    return { tok := ← assign t 118 p 0 tail, next := p }

def isDigit (c : UInt8) : Bool := c - 48 ≤ 9

def parseNumber (rest : Bytes) : M Lex := do
  let n := rest.length
  let c0 ← at' rest 0
  let digits : Option Bytes ←
    (if c0 == 48 && 1 < n then do
      let c1 ← at' rest 1
      if c1 == 88 || c1 == 120 then pure (some (bs "0123456789ABCDEFabcdef"))
      else if c1 == 66 || c1 == 98 then pure (some (bs "01"))
      else pure none
    else pure none)
  match digits with
  | some ds =>
    let length := spn (mem ds) (← sliceFrom rest 2)
    if length == 0 then return { tok := ← assign {} 110 0 2 rest, next := 2 }
    else return { tok := ← assign {} 49 0 (2 + length) rest, next := 2 + length }
  | none =>
    let start := 0
    let pos := spn isDigit rest
    let (pos, dotOnly) ←
      (if ← (g (pos < n) <&&> byteIs rest pos 46) then do
        let pos1 := pos + 1
        let pos2 := pos1 + spn isDigit (← sliceFrom rest pos1)
        pure (pos2, pos2 - start == 1)
      else pure (pos, false))
    if dotOnly then return { tok := ← assign {} 46 start 1 (bs "."), next := pos }
    else
      let (pos, haveE, haveExp) ←
        (if pos < n then do
          let c ← at' rest pos
          if c == 69 || c == 101 then
            let pos := pos + 1
            let pos ← (if pos < n then do
                let c ← at' rest pos
                pure (if c == 43 || c == 45 then pos + 1 else pos)
              else pure pos)
            let k := spn isDigit (← sliceFrom rest pos)
            pure (pos + k, true, k != 0)
          else pure (pos, false, false)
        else pure (pos, false, false))
      let pos ←
        (if pos < n then do
          let c ← at' rest pos
          if c == 100 || c == 68 || c == 102 || c == 70 then
            if pos + 1 == n then pure (pos + 1)
            else do
              let c1 ← at' rest (pos + 1)
              if isWhite c1 || c1 == 59 then pure (pos + 1)
              else if c1 == 117 || c1 == 85 then pure (pos + 1)
              else pure pos
          else pure pos
        else pure pos)
      let v ← sliceFrom rest start
      if haveE && !haveExp then return { tok := ← assign {} 110 start (pos - start) v, next := pos }
      else return { tok := ← assign {} 49 start (pos - start) v, next := pos }

def parseUString (rest : Bytes) : M Lex := do
  let n := rest.length
  if ← (g (2 < n) <&&> byteIs rest 1 38 <&&> byteIs rest 2 39) then
    let r ← parseString {} (← sliceFrom rest 2)
    let r := shift r 2
    return { r with tok := { r.tok with strOpen := 117, strClose := if r.tok.strClose == 39 then 117 else r.tok.strClose } }
  else parseWord rest

def parseEString (rest : Bytes) : M Lex := do
  let n := rest.length
  if ← (g (2 ≥ n) <||> byteNe rest 1 39) then parseWord rest
  else parseStringCore {} rest 2 39

def parseQStringCore (rest : Bytes) (offset : Nat) : M Lex := do
  let n := rest.length
  let p := offset
  let bad ← (if p ≥ n then pure true else do
    let c ← at' rest p
    if c != 113 && c != 81 then pure true
    else if p + 2 ≥ n then pure true
    else pure ((← at' rest (p + 1)) != 39))
  if bad then parseWord rest
  else
    let ch ← at' rest (p + 2)
    if ch < 33 then parseWord rest
    else
      let ch := if ch == 40 then 41 else if ch == 91 then 93 else if ch == 123 then 125 else if ch == 60 then 62 else ch
      let tail ← sliceFrom rest (p + 3)
      match indexOf tail [ch, 39] with
      | none =>
        let t ← assign {} 115 (p + 3) (n - p - 3) tail
        return { tok := { t with strOpen := 113, strClose := 0 }, next := n }
      | some i =>
        let t ← assign {} 115 (p + 3) i tail
        return { tok := { t with strOpen := 113, strClose := 113 }, next := p + 3 + i + 2 }

def parseNqString (rest : Bytes) : M Lex := do
  if ← (g (2 < rest.length) <&&> byteIs rest 1 39) then parseEString rest
  else parseQStringCore rest 1

def parseXBString (digits : Bytes) (rest : Bytes) : M Lex := do
  let n := rest.length
  if ← (g (2 ≥ n) <||> byteNe rest 1 39) then parseWord rest
  else
    let length := spn (mem digits) (← sliceFrom rest 2)
    if ← (g (2 + length ≥ n) <||> byteNe rest (2 + length) 39) then parseWord rest
    else return { tok := ← assign {} 49 0 (length + 3) rest, next := 2 + length + 1 }

def parseBWord (rest : Bytes) : M Lex := do
  match indexByte rest 93 with
  | none => return { tok := ← assign {} 110 0 rest.length rest, next := rest.length }
  | some e => return { tok := ← assign {} 110 0 (e + 1) rest, next := e + 1 }

def letters : Bytes := bs "abcdefghjiklmnopqrstuvwxyzABCDEFGHIJKLMNOPQRSTUVWXYZ"

def parseMoney (rest : Bytes) : M Lex := do
  let n := rest.length
  if 1 == n then return { tok := ← assign {} 110 0 1 (bs "$"), next := n }
  else
    let tail1 ← sliceFrom rest 1
    let length := spn (mem (bs "0123456789.,")) tail1
    if length == 0 then
      if (← at' rest 1) == 36 then
        let tail2 ← sliceFrom rest 2
        match indexOf tail2 (bs "$$") with
        | none =>
          let t ← assign {} 115 2 (n - 2) tail2
          return { tok := { t with strOpen := 36, strClose := 0 }, next := n }
        | some i =>
          let t ← assign {} 115 2 i tail2
          return { tok := { t with strOpen := 36, strClose := 36 }, next := 2 + i + 2 }
      else
        let xlen := spn (mem letters) tail1
        if xlen == 0 then return { tok := ← assign {} 110 0 1 (bs "$"), next := 1 }
        else if ← (g (xlen + 1 == n) <||> byteNe rest (xlen + 1) 36) then
          return { tok := ← assign {} 110 0 1 (bs "$"), next := 1 }
        else
          let body ← sliceFrom rest (xlen + 2)
          let tag ← slice rest 0 (xlen + 2)
          match indexOf body tag with
          | none =>
            let t ← assign {} 115 (xlen + 2) (n - xlen - 2) body
            return { tok := { t with strOpen := 36, strClose := 0 }, next := n }
          | some i =>
            let t ← assign {} 115 (xlen + 2) i body
            return { tok := { t with strOpen := 36, strClose := 36 }, next := xlen + 2 + i + xlen + 2 }
    else if ← (g (length == 1) <&&> byteIs rest 1 46) then parseWord rest
    else return { tok := ← assign {} 49 0 (length + 1) rest, next := length + 1 }

inductive P
  | white | op1 | op2 | other | byte | hash | dash | slash | backslash | string | word | var | number
  | tick | ustring | qstring | nqstring | xstring | bstring | estring | bword | money
deriving Repr, DecidableEq

def dispatch (c : UInt8) : P :=
  if c ≤ 32 then .white
  else match c.toNat with
  | 33 => .op2 | 34 => .string | 35 => .hash | 36 => .money | 37 => .op1 | 38 => .op2 | 39 => .string
  | 40 => .byte | 41 => .byte | 42 => .op2 | 43 => .op1 | 44 => .byte | 45 => .dash | 46 => .number
  | 47 => .slash | 58 => .op2 | 59 => .byte | 60 => .op2 | 61 => .op2 | 62 => .op2 | 63 => .other
  | 64 => .var | 66 => .bstring | 69 => .estring | 78 => .nqstring | 81 => .qstring | 85 => .ustring
  | 88 => .xstring | 91 => .bword | 92 => .backslash | 93 => .other | 94 => .op1 | 96 => .tick
  | 98 => .bstring | 101 => .estring | 110 => .nqstring | 113 => .qstring | 117 => .ustring | 120 => .xstring
  | 123 => .byte | 124 => .op2 | 125 => .byte | 126 => .op1 | 127 => .white | 160 => .white
  | n => if 48 ≤ n && n ≤ 57 then .number else .word

def runP (flags : Nat) (rest : Bytes) : P → M Lex
  | .white => parseWhite rest | .op1 => parseOperator1 rest | .op2 => parseOperator2 rest
  | .other => parseOther rest | .byte => parseByte rest | .hash => parseHash flags rest
  | .dash => parseDash flags rest | .slash => parseSlash rest | .backslash => parseBackSlash rest
  | .string => parseString {} rest | .word => parseWord rest | .var => parseVar rest
  | .number => parseNumber rest | .tick => parseTick {} rest | .ustring => parseUString rest
  | .qstring => parseQStringCore rest 0 | .nqstring => parseNqString rest
  | .xstring => parseXBString (bs "0123456789abcdefABCDEF") rest | .bstring => parseXBString (bs "01") rest
  | .estring => parseEString rest | .bword => parseBWord rest | .money => parseMoney rest

structure State where
  input : Bytes
  flags : Nat
  pos : Nat := 0
  tv : Array Token := Array.replicate 8 {}
  cur : Nat := 0
  fingerprint : Bytes := []
  ddx : Nat := 0
  hash : Nat := 0
  folds : Nat := 0
  toks : Nat := 0
deriving Repr

def tvGet (s : State) (i : Nat) : M Token :=
  match s.tv[i]? with
  | some t => .ok t
  | none => .error .tv

def tvSet (s : State) (i : Nat) (t : Token) : M State :=
  if i < s.tv.size then .ok { s with tv := s.tv.set! i t } else .error .tv

def flag2Delim (flags : Nat) : UInt8 :=
  if hasFlag flags flagQuoteSingle then 39 else if hasFlag flags flagQuoteDouble then 34 else 0

def tokLoop (s : State) : Nat → M (Bool × State)
  | 0 => .error .fuel
  | fuel + 1 =>
    if s.pos < s.input.length then do
      let rest ← sliceFrom s.input s.pos
      let r ← runP s.flags rest (dispatch (← at' rest 0))
      let tok := { r.tok with pos := r.tok.pos + s.pos }
      let s ← tvSet s s.cur tok
      let s := { s with pos := s.pos + r.next, ddx := s.ddx + r.ddx, hash := s.hash + r.hash }
      if tok.cat != 0 then return (true, { s with toks := s.toks + 1 })
      else tokLoop s fuel
    else return (false, s)

def tokenize (s : State) : M (Bool × State) := do
  if s.input.length == 0 then return (false, s)
  let s ← tvSet s s.cur {}
  if s.pos == 0 && (hasFlag s.flags flagQuoteSingle || hasFlag s.flags flagQuoteDouble) then
    let r ← parseStringCore {} s.input 0 (flag2Delim s.flags)
    let s ← tvSet s s.cur r.tok
    return (true, { s with pos := r.next, toks := s.toks + 1 })
  tokLoop s (s.input.length + 1)

def Token.isUnaryOp (t : Token) : M Bool := do
  if t.cat != 111 then return false
  match t.len with
  | 1 => let c ← at' t.val 0; return c == 43 || c == 45 || c == 33 || c == 126
  | 2 => byteIs t.val 0 33 <&&> byteIs t.val 1 33
  | 3 => return toUpperCmp "NOT" (← slice t.val 0 3)
  | _ => return false

def Token.isArithmeticOp (t : Token) : M Bool := do
  if t.cat == 111 && t.len == 1 then
    let c ← at' t.val 0
    return c == 42 || c == 47 || c == 43 || c == 45 || c == 37
  else return false

def mergeA (c : UInt8) : Bool :=
  c == 107 || c == 110 || c == 111 || c == 85 || c == 102 || c == 69 || c == 84 || c == 116
def mergeB (c : UInt8) : Bool := mergeA c || c == 38

/-- merge: returns some newA when merged -/
def merge (a b : Token) : M (Option Token) := do
  if !mergeA a.cat then return none
  if !mergeB b.cat then return none
  if a.len + b.len + 1 > tokenSize then return none
  let tmp := (← slice a.val 0 a.len) ++ [32] ++ (← slice b.val 0 b.len)
  let ch := searchKeyword tmp
  if ch != 0 then return some (← assign a ch a.pos tmp.length tmp) else return none

def valOf (t : Token) : M Bytes := slice t.val 0 t.len

structure FS where
  s : State
  pos : Nat
  left : Nat
  more : Bool
  lastComment : Token
deriving Repr

def fetch (f : FS) (k : Nat) : Nat → M FS
  | 0 => .error .fuel
  | fuel + 1 =>
    if f.more && f.pos ≤ maxTokens && f.pos - f.left < k then do
      let s := { f.s with cur := f.pos }
      let (more, s) ← tokenize s
      let f := { f with s := s, more := more }
      if more then
        let cur ← tvGet s s.cur
        if cur.cat == 99 then fetch { f with lastComment := cur } k fuel
        else fetch { f with lastComment := { f.lastComment with cat := 0 }, pos := f.pos + 1 } k fuel
      else fetch f k fuel
    else return f

def sub (a b : Nat) : M Nat := if b ≤ a then .ok (a - b) else .error .neg

inductive Step | cont (f : FS) | brk (f : FS) | ret (n : Nat) (f : FS)

def funcNames : List String :=
  ["USER_ID", "USER_NAME", "DATABASE", "PASSWORD", "USER", "CURRENT_USER", "CURRENT_DATE",
   "CURRENT_TIME", "CURRENT_TIMESTAMP", "LOCALTIME", "LOCALTIMESTAMP"]

def special5 (s : State) : M Bool := do
  let c0 := (← tvGet s 0).cat; let c1 := (← tvGet s 1).cat; let c2 := (← tvGet s 2).cat
  let c3 := (← tvGet s 3).cat; let c4 := (← tvGet s 4).cat
  return (c0 == 49 && (c1 == 111 || c1 == 44) && c2 == 40 && c3 == 49 && c4 == 41) ||
    (c0 == 110 && c1 == 111 && c2 == 40 && (c3 == 110 || c3 == 49) && c4 == 41) ||
    (c0 == 49 && c1 == 41 && c2 == 44 && c3 == 40 && c4 == 49) ||
    (c0 == 110 && c1 == 41 && c2 == 111 && c3 == 40 && c4 == 110)

def foldBody (f : FS) : M Step := do
  -- 5-token special cases
  let f ← (if f.pos ≥ maxTokens then do
      if ← special5 f.s then
        if f.pos > maxTokens then
          let s ← tvSet f.s 1 (← tvGet f.s 5)
          pure { f with s := s, pos := 2, left := 0 }
        else pure { f with pos := 1, left := 0 }
      else pure f
    else pure f)
  if !f.more || f.left ≥ maxTokens then return .brk { f with left := f.pos }
  let f ← fetch f 2 (f.s.input.length + 4)
  if f.pos - f.left < 2 then return .cont { f with left := f.pos }
  let left := f.left
  let a ← tvGet f.s left
  let b ← tvGet f.s (left + 1)
  let bUnary ← b.isUnaryOp
  let dec (f : FS) (k : Nat) : M FS := do return { f with pos := ← sub f.pos k }
  let folds (f : FS) (k : Nat) : FS := { f with s := { f.s with folds := f.s.folds + k } }
  -- two-token rules, in source order
  if a.cat == 115 && b.cat == 115 then return .cont (folds (← dec f 1) 1)
  if a.cat == 59 && b.cat == 59 then return .cont (folds (← dec f 1) 1)
  if (a.cat == 111 || a.cat == 38) && (bUnary || b.cat == 116) then
    return .cont { folds (← dec f 1) 1 with left := 0 }
  if a.cat == 40 && bUnary then
    let f := folds (← dec f 1) 1
    return .cont { f with left := if f.left > 0 then f.left - 1 else f.left }
  match ← merge a b with
  | some a' =>
    let s ← tvSet f.s left a'
    let f := folds (← dec { f with s := s } 1) 1
    return .cont { f with left := if f.left > 0 then f.left - 1 else f.left }
  | none =>
  let isIF ← (if a.cat == 59 && b.cat == 102 then do
      let v0 ← at' b.val 0
      if v0 == 73 || v0 == 105 then do
        let v1 ← at' b.val 1
        pure (v1 == 70 || v1 == 102)
      else pure false
    else pure false)
  if isIF then
    let s ← tvSet f.s (left + 1) { b with cat := 84 }
    return .cont { f with s := s }
  let av ← valOf a
  if (a.cat == 110 || a.cat == 118) && b.cat == 40 && funcNames.any (fun n => toUpperCmp n av) then
    let s ← tvSet f.s left { a with cat := 102 }
    return .cont { f with s := s }
  if a.cat == 107 && (toUpperCmp "IN" av || toUpperCmp "NOT IN" av) then
    let s ← tvSet f.s left { a with cat := if b.cat == 40 then 111 else 110 }
    return .cont { f with s := s }
  -- LIKE: falls through
  let (f, a, handled) ← (
    if a.cat == 111 && (toUpperCmp "LIKE" av || toUpperCmp "NOT LIKE" av) then do
      if b.cat == 40 then
        let a' := { a with cat := 102 }
        pure ({ f with s := ← tvSet f.s left a' }, a', true)
      else pure (f, a, true)
    else pure (f, a, false))
  if !handled then
    if a.cat == 116 && (b.cat == 110 || b.cat == 49 || b.cat == 116 || b.cat == 40 || b.cat == 102 || b.cat == 118 || b.cat == 115) then
      let s ← tvSet f.s left b
      return .cont { folds (← dec { f with s := s } 1) 1 with left := 0 }
  -- collate: falls through
  let (f, handled) ← (
    if !handled && a.cat == 65 && b.cat == 110 then do
      if (indexByte b.val 95).isSome then
        pure ({ f with s := ← tvSet f.s (left + 1) { b with cat := 116 }, left := 0 }, true)
      else pure (f, true)
    else pure (f, handled))
  if !handled then
    if a.cat == 92 then
      if ← b.isArithmeticOp then
        let s ← tvSet f.s left { a with cat := 49 }
        return .cont { f with s := s, left := 0 }
      else
        let s ← tvSet f.s left b
        return .cont { folds (← dec { f with s := s } 1) 1 with left := 0 }
    if a.cat == 40 && b.cat == 40 then return .cont { folds (← dec f 1) 1 with left := 0 }
    if a.cat == 41 && b.cat == 41 then return .cont { folds (← dec f 1) 1 with left := 0 }
    if a.cat == 123 && b.cat == 110 then
      if b.len == 0 then
        let s ← tvSet f.s (left + 1) { b with cat := 88 }
        return .ret (left + 2) { f with s := s }
      return .cont { folds (← dec f 2) 2 with left := 0 }
    if b.cat == 125 then return .cont { folds (← dec f 1) 1 with left := 0 }
  -- three tokens
  let f ← fetch f 3 (f.s.input.length + 4)
  if f.pos - f.left < 3 then return .cont { f with left := f.pos }
  let left := f.left
  let a ← tvGet f.s left
  let b ← tvGet f.s (left + 1)
  let c ← tvGet f.s (left + 2)
  let bUnary ← b.isUnaryOp
  if a.cat == 49 && b.cat == 111 && c.cat == 49 then return .cont { (← dec f 2) with left := 0 }
  if a.cat == 111 && b.cat != 40 && c.cat == 111 then return .cont { (← dec f 2) with left := 0 }
  if a.cat == 38 && c.cat == 38 then return .cont { (← dec f 2) with left := 0 }
  if a.cat == 118 && b.cat == 111 && (c.cat == 118 || c.cat == 49 || c.cat == 110) then
    return .cont { (← dec f 2) with left := 0 }
  if (a.cat == 110 || a.cat == 49) && b.cat == 111 && (c.cat == 49 || c.cat == 110) then
    return .cont { (← dec f 2) with left := 0 }
  if (a.cat == 110 || a.cat == 49 || a.cat == 118 || a.cat == 115) && b.cat == 111 &&
      (← valOf b) == bs "::" && c.cat == 116 then
    return .cont { folds (← dec f 2) 2 with left := 0 }
  if (a.cat == 110 || a.cat == 49 || a.cat == 115 || a.cat == 118) && b.cat == 44 &&
      (c.cat == 49 || c.cat == 110 || c.cat == 115 || c.cat == 118) then
    return .cont { (← dec f 2) with left := 0 }
  if (a.cat == 69 || a.cat == 66 || a.cat == 44) && bUnary && c.cat == 40 then
    let s ← tvSet f.s (left + 1) c
    return .cont { (← dec { f with s := s } 1) with left := 0 }
  if (a.cat == 107 || a.cat == 69 || a.cat == 66) && bUnary &&
      (c.cat == 49 || c.cat == 110 || c.cat == 118 || c.cat == 115 || c.cat == 102) then
    let s ← tvSet f.s (left + 1) c
    return .cont { (← dec { f with s := s } 1) with left := 0 }
  if a.cat == 44 && bUnary && (c.cat == 49 || c.cat == 110 || c.cat == 118 || c.cat == 115) then
    let s ← tvSet f.s (left + 1) c
    return .cont { (← dec { f with s := s } 3) with left := 0 }
  if a.cat == 44 && bUnary && c.cat == 102 then
    let s ← tvSet f.s (left + 1) c
    return .cont { (← dec { f with s := s } 1) with left := 0 }
  if a.cat == 110 && b.cat == 46 && c.cat == 110 then return .cont { (← dec f 2) with left := 0 }
  if a.cat == 69 && b.cat == 46 && c.cat == 110 then
    let s ← tvSet f.s (left + 1) c
    return .cont { (← dec { f with s := s } 1) with left := 0 }
  let f ← (if a.cat == 102 && b.cat == 40 && c.cat != 41 then do
      if toUpperCmp "USER" (← valOf a) then
        pure { f with s := ← tvSet f.s left { a with cat := 110 } }
      else pure f
    else pure f)
  return .cont { f with left := f.left + 1 }

def foldLoop (f : FS) : Nat → M (Nat × FS)
  | 0 => .error .fuel
  | fuel + 1 => do
    match ← foldBody f with
    | .cont f => foldLoop f fuel
    | .brk f =>
      -- epilogue
      let f ← (if f.left < maxTokens && f.lastComment.cat == 99 then do
          let s ← tvSet f.s f.left f.lastComment
          pure { f with s := s, left := f.left + 1 }
        else pure f)
      let left := if f.left > maxTokens then maxTokens else f.left
      return (left, f)
    | .ret n f => return (n, f)

def skipLoop (s : State) : Nat → M (Bool × State)
  | 0 => .error .fuel
  | fuel + 1 => do
    let (more, s) ← tokenize s
    if !more then return (false, s)
    let cur ← tvGet s s.cur
    if !(← (g (cur.cat == 99 || cur.cat == 40 || cur.cat == 116) <||> cur.isUnaryOp)) then return (true, s)
    skipLoop s fuel

def fold (s : State) : M (Nat × State) := do
  let s := { s with cur := 0 }
  let (more, s) ← skipLoop s (s.input.length + 2)
  if !more then return (0, s)
  let f : FS := { s := s, pos := 1, left := 0, more := more, lastComment := {} }
  let (n, f) ← foldLoop f (8 * s.input.length + 64)
  return (n, f.s)

def sqliInit (input : Bytes) (flags : Nat) : State :=
  { input := input, flags := if flags == 0 then flagQuoteNone ||| flagAnsi else flags }

def fingerprint (input : Bytes) (flags : Nat) : M State := do
  let s := sqliInit input flags
  let (length, s) ← fold s
  let s ← (if length > 2 then do
      let t ← tvGet s (length - 1)
      if t.cat == 110 && t.strOpen == 96 && t.len == 0 && t.strClose == 0 then
        tvSet s (length - 1) { t with cat := 99 }
      else pure s
    else pure s)
  let rec build (i : Nat) (acc : Bytes) (fuel : Nat) : M (Option Bytes) :=
    match fuel with
    | 0 => .ok (some acc)
    | fuel + 1 =>
      if i < length then do
        let c := (← tvGet s i).cat
        if c == 88 then return none else build (i + 1) (acc ++ [c]) fuel
      else return some acc
  match ← build 0 [] 8 with
  | none =>
    let t0 ← tvGet s 0
    let s ← tvSet s 0 { t0 with cat := 88, val := [88] }
    return { s with fingerprint := [88] }
  | some fp => return { s with fingerprint := fp }

def blacklist (s : State) : Bool :=
  if s.fingerprint.length < 1 then false
  else
    let fp := (48 : UInt8) :: s.fingerprint.map (fun c => if 97 ≤ c && c ≤ 122 then c - 32 else c)
    searchKeyword fp == 70

/-- `refWl` = true models the reference comparison `== '/'` (F8), false the shipped `!= '/'` -/
def notWhitelist (refWl : Bool) (s : State) : M Bool := do
  let fp := s.fingerprint
  let length := fp.length
  if length > 1 && fp[length - 1]? == some 99 then
    if contains s.input (bs "sp_password") then return true
  if length == 2 then
    let t0 ← tvGet s 0
    let t1 ← tvGet s 1
    if fp[1]? == some 85 then return s.toks != 2
    let v0 ← at' t1.val 0
    if v0 == 35 then return false
    if t0.cat == 110 && t1.cat == 99 && v0 != 47 then return false
    if t0.cat == 49 && t1.cat == 99 && (if refWl then v0 == 47 else v0 != 47) then return true
    if t0.cat == 49 && t1.cat == 99 then
      if s.toks > 2 then return true
      let ch ← at' s.input t0.len
      if ch ≤ 32 then return true
      if ← (g (ch == 47) <&&> byteIs s.input (t0.len + 1) 42) then return true
      if ← (g (ch == 45) <&&> byteIs s.input (t0.len + 1) 45) then return true
      return false
    if t1.len > 2 && v0 == 45 then return false
    return true
  else if length == 3 then
    let t0 ← tvGet s 0
    let t1 ← tvGet s 1
    let t2 ← tvGet s 2
    if fp == bs "sos" || fp == bs "s&s" then
      if t0.strOpen == 0 && t2.strClose == 0 && t0.strClose == t2.strOpen then return true
      return false
    if fp == bs "s&n" || fp == bs "n&1" || fp == bs "1&1" || fp == bs "1&v" || fp == bs "1&s" then
      if s.toks == 3 then return false
    if t1.cat == 107 then
      if t1.len < 5 then return false
      if !toUpperCmp "INTO" (← slice t1.val 0 4) then return false
    return true
  else return true

def checkFingerprint (refWl : Bool) (s : State) : M Bool := do
  if blacklist s then notWhitelist refWl s else return false

def reparseAsMySQL (s : State) : Bool := s.ddx != 0 || s.hash != 0

/-- IsSQLi -/
def isSQLi (refWl : Bool) (input : Bytes) : M (Bool × Bytes) := do
  if input.length == 0 then return (false, [])
  let mut s ← fingerprint input (flagQuoteNone ||| flagAnsi)
  if ← checkFingerprint refWl s then return (true, s.fingerprint)
  else if reparseAsMySQL s then
    s ← fingerprint input (flagQuoteNone ||| flagMysql)
    if ← checkFingerprint refWl s then return (true, s.fingerprint)
  if (indexByte input 39).isSome then
    s ← fingerprint input (flagQuoteSingle ||| flagAnsi)
    if ← checkFingerprint refWl s then return (true, s.fingerprint)
    else if reparseAsMySQL s then
      s ← fingerprint input (flagQuoteSingle ||| flagMysql)
      if ← checkFingerprint refWl s then return (true, s.fingerprint)
  if (indexByte input 34).isSome then
    s ← fingerprint input (flagQuoteDouble ||| flagMysql)
    if ← checkFingerprint refWl s then return (true, s.fingerprint)
  return (false, [])

end Sqli
