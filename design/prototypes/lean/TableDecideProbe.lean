import Probe.Table
namespace Probe

/-- bytes of a base-256 key, given its length -/
def keyBytes : Nat → Nat → List Nat
  | 0, _ => []
  | l+1, n => keyBytes l (n / 256) ++ [n % 256]

def isUpperFree (b : Nat) : Bool := !(97 ≤ b && b ≤ 122)

def wf (e : Nat × Nat × Nat) : Bool :=
  e.1 ≤ 31 && (keyBytes e.1 e.2.1).all isUpperFree

def lookup (l n : Nat) : List (Nat × Nat × Nat) → Option Nat
  | [] => none
  | (l', n', v) :: t => if l == l' && n == n' then some v else lookup l n t

set_option maxRecDepth 100000 in
theorem all_wf : kwAll.all wf = true := by decide +kernel

set_option maxRecDepth 100000 in
theorem look1 : lookup 6 (0x53454c454354) kwAll = some 69 := by decide +kernel

def fps : List (Nat × Nat) := [(3, 0x303155), (4, 0x30314331), (2,0x3058)]
set_option maxRecDepth 100000 in
theorem nolook : (fps.map fun p => lookup p.1 p.2 kwAll) = [some 70, none, some 70] := by decide +kernel

def sortedKeys : List (Nat × Nat × Nat) → Bool
  | a :: b :: t => (a.1 < b.1 || (a.1 == b.1 && a.2.1 < b.2.1)) && sortedKeys (b :: t)
  | _ => true
set_option maxRecDepth 100000 in
theorem sorted : sortedKeys kwAll = true := by decide +kernel

#print axioms all_wf
end Probe
