import Probe.Sqli
namespace Sqli

theorem fetch_id (f : FS) (k n : Nat) (h : ¬ (f.pos - f.left < k)) : fetch f k (n + 1) = .ok f := by
  unfold fetch
  simp [h, pure, Except.pure]

theorem isUnaryOp_not_op (t : Token) (h : t.cat ≠ 111) : t.isUnaryOp = .ok false := by
  unfold Token.isUnaryOp
  simp [h, pure, Except.pure]

theorem foldBody_ss (f : FS) (a b : Token)
    (hmore : f.more = true) (hleft : f.left < maxTokens) (hpos : f.pos < maxTokens)
    (h2 : f.pos - f.left = 2)
    (ha : f.s.tv[f.left]? = some a) (hb : f.s.tv[f.left + 1]? = some b)
    (hac : a.cat = 115) (hbc : b.cat = 115) :
    ∃ f', foldBody f = .ok (.cont f') ∧ f'.pos + 1 = f.pos := by
  unfold foldBody
  have hp : ¬ (f.pos ≥ maxTokens) := by omega
  have hl : ¬ (f.left ≥ maxTokens) := by omega
  have hf := fetch_id f 2 (f.s.input.length + 3) (by omega)
  have hub := isUnaryOp_not_op b (by simp [hbc])
  simp only [hp, hl, hmore, ite_false, bind, Except.bind, pure, Except.pure, Bool.not_true,
    Bool.false_or, decide_false, Bool.false_eq_true, ↓reduceIte, hf, h2, Nat.lt_irrefl, tvGet, ha, hb, hub,
    hac, hbc, beq_self_eq_true, Bool.and_self, sub]
  have : 1 ≤ f.pos := by omega
  simp [this]

#print axioms foldBody_ss
end Sqli
