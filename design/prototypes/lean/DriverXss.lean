import Probe.Xss
open H5

def hexVal (c : UInt8) : UInt8 :=
  if c ≥ 48 && c ≤ 57 then c - 48 else if c ≥ 97 && c ≤ 102 then c - 87 else 0

def unhex (s : String) : List UInt8 :=
  let rec go : List UInt8 → List UInt8
    | a :: b :: t => (hexVal a * 16 + hexVal b) :: go t
    | _ => []
  go s.toUTF8.toList

def showM {α} (f : α → String) : M α → String
  | .ok a => f a
  | .error e => s!"ERR {repr e}"

def run (line : String) : String :=
  match line.trimAscii.toString.splitOn " " with
  | ["xc", ctx, hex] => showM toString (isXSSCtx (unhex hex) ctx.toNat!)
  | ["xc", ctx] => showM toString (isXSSCtx [] ctx.toNat!)
  | ["x", hex] => showM toString (isXSS (unhex hex))
  | ["x"] => showM toString (isXSS [])
  | ["dec", hex] => showM (fun (p : Int × Nat) => s!"{p.1} {p.2}") (htmlDecodeByteAt (unhex hex))
  | ["dec"] => showM (fun (p : Int × Nat) => s!"{p.1} {p.2}") (htmlDecodeByteAt [])
  | ["url", hex] => showM toString (isBlackURL (unhex hex))
  | ["url"] => showM toString (isBlackURL [])
  | ["tag", hex] => toString (isBlackTag (unhex hex))
  | ["tag"] => toString (isBlackTag [])
  | ["attr", hex] => toString (isBlackAttr (unhex hex))
  | ["attr"] => toString (isBlackAttr [])
  | _ => "bad"

partial def loop (h : IO.FS.Stream) (out : IO.FS.Stream) : IO Unit := do
  let line ← h.getLine
  if line.isEmpty then return ()
  out.putStrLn (run line)
  loop h out

def main : IO Unit := do
  loop (← IO.getStdin) (← IO.getStdout)
