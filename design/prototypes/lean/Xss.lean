import Probe.H5
import Probe.XssTables
namespace H5
open XssT

def bs (s : String) : Bytes := s.toUTF8.toList

def goUpper : Bytes → Bytes
  | [] => []
  | 0xC4 :: 0xB1 :: t => 73 :: goUpper t
  | 0xC5 :: 0xBF :: t => 83 :: goUpper t
  | c :: t => (if 97 ≤ c && c ≤ 122 then c - 32 else c) :: goUpper t

def stripNul (s : Bytes) : Bytes := s.filter (· != 0)

def isBlackTag (s : Bytes) : Bool :=
  if s.length < 3 then false
  else
    let u := goUpper (stripNul s)
    blackTags.contains u || u == bs "SVT" || u == bs "XSL"

def lookupTy (l : List (Bytes × Nat)) (k : Bytes) : Option Nat :=
  match l with
  | [] => none
  | (n, t) :: r => if n == k then some t else lookupTy r k

def isBlackAttr (s : Bytes) : Nat :=
  let u := goUpper (stripNul s)
  let length := u.length
  if length < 2 then 0
  else
    let r : Option Nat :=
      if length ≥ 5 then
        if u == bs "XMLNS" || u == bs "XLINK" then some 1
        else if u.take 2 == bs "ON" then lookupTy blackEvents (u.drop 2)
        else none
      else none
    match r with
    | some t => t
    | none => (lookupTy blacks u).getD 0

def slice (s : Bytes) (a b : Nat) : M Bytes :=
  if a ≤ b ∧ b ≤ s.length then .ok ((s.drop a).take (b - a)) else .error .slice

def hexDec (c : UInt8) : M Nat :=
  match hexMap[c.toNat]? with
  | some v => .ok v
  | none => .error .oob

def decHexLoop (s : Bytes) (val i : Nat) : Nat → M (Int × Nat)
  | 0 => .error .fuel
  | fuel + 1 =>
    if i < s.length then do
      let ch ← at' s i
      if ch == 59 then return (val, i + 1)
      let d ← hexDec ch
      if d == 256 then return (val, i)
      let val := val * 16 + d
      if val > 0x1000FF then return (38, 1)
      decHexLoop s val (i + 1) fuel
    else return (val, i)

def decDecLoop (s : Bytes) (val i : Nat) : Nat → M (Int × Nat)
  | 0 => .error .fuel
  | fuel + 1 =>
    if i < s.length then do
      let ch ← at' s i
      if ch == 59 then return (val, i + 1)
      if ch < 48 || ch > 57 then return (val, i)
      let val := val * 10 + (ch.toNat - 48)
      if val > 0x1000FF then return (38, 1)
      decDecLoop s val (i + 1) fuel
    else return (val, i)

/-- htmlDecodeByteAt: (value or -1 for EOF, consumed) -/
def htmlDecodeByteAt (s : Bytes) : M (Int × Nat) := do
  let length := s.length
  if length == 0 then return (-1, 0)
  let c0 ← at' s 0
  if c0 != 38 || length < 2 then return (c0.toNat, 1)
  let c1 ← at' s 1
  if c1 != 35 || length < 3 then return (38, 1)
  let c2 ← at' s 2
  if c2 == 120 || c2 == 88 then
    if length < 4 then return (38, 1)
    let d ← hexDec (← at' s 3)
    if d == 256 then return (38, 1)
    decHexLoop s d 4 (length + 1)
  else
    if c2 < 48 || c2 > 57 then return (38, 1)
    decDecLoop s (c2.toNat - 48) 3 (length + 1)

def startsLoop (b : Bytes) (first : Bool) (acc : Bytes) : Nat → M Bytes
  | 0 => .error .fuel
  | fuel + 1 =>
    if b.length > 0 then do
      let (cb, consumed) ← htmlDecodeByteAt b
      let b ← (if consumed ≤ b.length then pure (b.drop consumed) else .error .slice)
      if first && cb ≤ 32 then startsLoop b first acc fuel
      else if cb == 0 || cb == 10 then startsLoop b false acc fuel
      else
        let cb := if cb ≥ 97 && cb ≤ 122 then cb - 32 else cb
        startsLoop b false (acc ++ [UInt8.ofNat (cb.toNat % 256)]) fuel
    else return acc

def isInfix (n h : Bytes) : Bool :=
  match h with
  | [] => n.isEmpty
  | _ :: t => n.isPrefixOf h || isInfix n t

def htmlEncodeStartsWith (a b : Bytes) : M Bool := do
  let acc ← startsLoop b true [] (b.length + 1)
  return isInfix a acc

def urls : List Bytes := [bs "DATA", bs "VIEW-SOURCE", bs "VBSCRIPT", bs "JAVA"]

def isBlackURL (s : Bytes) : M Bool := do
  let str := s.dropWhile (fun c => c ≤ 32 || c ≥ 127)
  urls.anyM (fun u => htmlEncodeStartsWith u str)

def xssLoop (h : H) (attr : Nat) : Nat → M Bool
  | 0 => .error .fuel
  | fuel + 1 => do
    let (more, h) ← next h
    if !more then return false
    let attr := if h.tokType != .attrValue then 0 else attr
    let tok : M Bytes := slice h.s h.tokStart (h.tokStart + h.tokLen)
    match h.tokType with
    | .docType => return true
    | .tagNameOpen => if isBlackTag (← tok) then return true else xssLoop h attr fuel
    | .attrName => xssLoop h (isBlackAttr (← tok)) fuel
    | .attrValue =>
      match attr with
      | 1 => return true
      | 2 => if ← isBlackURL (← tok) then return true else xssLoop h 0 fuel
      | 3 => return true
      | 4 => if isBlackAttr (← tok) == 1 then return true else xssLoop h 0 fuel
      | _ => xssLoop h 0 fuel
    | .tagComment =>
      let t ← tok
      if t.contains 96 then return true
      let start ← sliceFrom h.s h.tokStart
      let ts := h.s.drop start
      if h.tokLen > 3 then
        if (← at' ts 0) == 91 && goUpper (← slice ts 1 3) == bs "IF" then return true
        if goUpper (← slice ts 0 3) == bs "XML" then return true
      if h.tokLen > 5 then
        let u := goUpper (stripNul (← slice ts 0 6))
        if u == bs "IMPORT" || u == bs "ENTITY" then return true
      xssLoop h attr fuel
    | _ => xssLoop h attr fuel

def isXSSCtx (s : Bytes) (ctx : Nat) : M Bool := xssLoop (init s ctx) 0 (2 * s.length + 3)

def isXSS (s : Bytes) : M Bool := do
  if ← isXSSCtx s 0 then return true
  if ← isXSSCtx s 1 then return true
  if ← isXSSCtx s 2 then return true
  if ← isXSSCtx s 3 then return true
  isXSSCtx s 4

end H5
