package main

// C05: history mode and concurrent mode (also the body of the -race build).
// C09: timing of adversarial input families.

import (
	"bufio"
	"encoding/json"
	"flag"
	"fmt"
	"math/rand"
	"os"
	"path/filepath"
	"runtime"
	"sort"
	"strings"
	"sync"
	"time"

	li "github.com/corazawaf/libinjection-go"
)

type answer struct {
	sq  bool
	fp  string
	xss bool
}

func ask(s string) answer {
	b, fp := li.IsSQLi(s)
	return answer{b, fp, li.IsXSS(s)}
}

func historyInputs(seed int64, n int) []string {
	rng := rand.New(rand.NewSource(seed*97 + 13))
	var in []string
	in = append(in, corpus("sqli")...)
	in = append(in, xssSeeds...)
	in = append(in, sqlTemplates...)
	in = append(in, htmlTemplates...)
	for len(in) < n {
		if rng.Intn(2) == 0 {
			in = append(in, fragGen(rng, sqlFrag, sqlAlpha, 9))
		} else {
			in = append(in, fragGen(rng, htmlFrag, htmlAlpha, 8))
		}
	}
	// dedupe, keep order
	seen := map[string]bool{}
	var out []string
	for _, s := range in {
		if !seen[s] {
			seen[s] = true
			out = append(out, s)
		}
	}
	return append(out, historyLongInputs()...)
}

// historyLongInputs: a few inputs past the sizes at which an implementation might switch to another code path
// (a parallel scan, a cache, a pooled buffer): few tokens each, so that the model stays linear on them.
func historyLongInputs() []string {
	var out []string
	for _, n := range []int{5000, 40000, 70000} {
		pad := strings.Repeat("a", n)
		out = append(out,
			"<script>alert(1)</script>"+pad,
			pad+"<script>alert(1)</script>",
			"<a href=\"javascript:alert(1)\">"+pad,
			"1 OR 1=1 /*"+pad+"*/",
			"'"+pad+"' OR 1=1--",
			pad+" UNION SELECT 1,2,3--",
			pad)
	}
	return out
}

// cmdHistory: vharness history -seed S -n N -histories H -goroutines G -out DIR
func cmdHistory(args []string) {
	fs := flag.NewFlagSet("history", flag.ExitOnError)
	var seed int64
	var n, hist, gor int
	var out string
	fs.Int64Var(&seed, "seed", 1, "")
	fs.IntVar(&n, "n", 3000, "distinct inputs")
	fs.IntVar(&hist, "histories", 2000, "")
	fs.IntVar(&gor, "goroutines", 32, "")
	var coldFirst bool
	fs.BoolVar(&coldFirst, "cold-concurrent-first", false, "start with the concurrent phase in a cold process (first-use races), reference afterwards")
	fs.StringVar(&out, "out", "", "")
	fs.Parse(args)
	rep := newReport("C05", "reference pass (every input once, sequentially, in a fresh process; also compared with the model's fresh-state answer), then random call histories (repeats, permutations, interleaved SQLi/XSS calls) and concurrent goroutines over shared inputs with scheduling pressure; every answer must equal the reference; non-trivial = the input is reported by at least one detector")
	inputs := historyInputs(seed, n)
	nLong := len(historyLongInputs())
	ref := make([]answer, len(inputs))
	if coldFirst {
		// cold start: many goroutines ask the same inputs at once before anything ran sequentially
		cold := make([][]answer, gor)
		var wg0 sync.WaitGroup
		for g := 0; g < gor; g++ {
			wg0.Add(1)
			go func(g int) {
				defer wg0.Done()
				cold[g] = make([]answer, len(inputs))
				for i := range inputs {
					j := (i*7 + g*13) % len(inputs)
					cold[g][j] = ask(inputs[j])
					if i%5 == 0 {
						runtime.Gosched()
					}
				}
			}(g)
		}
		wg0.Wait()
		for i, s := range inputs {
			r0 := ask(s)
			for g := 0; g < gor; g++ {
				rep.Evals++
				if cold[g][i] != r0 {
					rep.fail("schedule-dependent-cold-start", s, fmt.Sprintf("goroutine %d: got %+v, sequential %+v", g, cold[g][i], r0))
				}
			}
		}
	}
	if out != "" {
		os.MkdirAll(out, 0o755)
	}
	var wo, wi *bufio.Writer
	if out != "" {
		fo, _ := os.Create(filepath.Join(out, "ops.0"))
		fi, _ := os.Create(filepath.Join(out, "impl.0"))
		defer fo.Close()
		defer fi.Close()
		wo, wi = bufio.NewWriter(fo), bufio.NewWriter(fi)
		defer wo.Flush()
		defer wi.Flush()
	}
	for i, s := range inputs {
		ref[i] = ask(s)
		rep.eval(s, ref[i].sq || ref[i].xss)
		if wo != nil {
			fmt.Fprintf(wo, "is %s\nx %s\n", hx(s), hx(s))
			fmt.Fprintf(wi, "%v %s\n%v\n", ref[i].sq, hexOf(ref[i].fp), ref[i].xss)
		}
	}
	rng := rand.New(rand.NewSource(seed*193 + 7))
	// sequential histories
	for h := 0; h < hist; h++ {
		l := 2 + rng.Intn(12)
		idx := make([]int, l)
		for k := range idx {
			if k > 0 && rng.Intn(4) == 0 {
				idx[k] = idx[rng.Intn(k)] // repeat an earlier call
			} else if rng.Intn(12) == 0 {
				idx[k] = len(inputs) - 1 - rng.Intn(nLong) // one of the long inputs
			} else {
				idx[k] = rng.Intn(len(inputs))
			}
		}
		for _, i := range idx {
			var a answer
			switch rng.Intn(3) {
			case 0:
				a = ask(inputs[i])
			case 1:
				a.xss = li.IsXSS(inputs[i])
				a.sq, a.fp = li.IsSQLi(inputs[i])
			default:
				a.sq, a.fp = li.IsSQLi(inputs[i])
				a.sq, a.fp = li.IsSQLi(inputs[i])
				a.xss = li.IsXSS(inputs[i])
			}
			rep.Evals++
			if a != ref[i] {
				rep.fail("history-dependent", inputs[i], fmt.Sprintf("history %d: got %+v reference %+v", h, a, ref[i]))
			}
		}
	}
	// concurrent
	var wg sync.WaitGroup
	var mu sync.Mutex
	per := hist * 4 / gor
	for g := 0; g < gor; g++ {
		wg.Add(1)
		go func(g int) {
			defer wg.Done()
			r := rand.New(rand.NewSource(seed*1009 + int64(g)))
			hot := r.Intn(len(inputs)) // every goroutine also hammers a few shared inputs
			for k := 0; k < per; k++ {
				i := r.Intn(len(inputs))
				if k%3 == 0 {
					i = (hot + k%5) % len(inputs)
				} else if k%11 == 0 {
					i = len(inputs) - 1 - r.Intn(nLong)
				}
				a := ask(inputs[i])
				if k%7 == 0 {
					runtime.Gosched()
				}
				if a != ref[i] {
					rep.fail("schedule-dependent", inputs[i], fmt.Sprintf("goroutine %d: got %+v reference %+v", g, a, ref[i]))
				}
				mu.Lock()
				rep.Evals++
				mu.Unlock()
			}
		}(g)
	}
	wg.Wait()
	b, _ := json.MarshalIndent(rep, "", " ")
	if out != "" {
		os.WriteFile(filepath.Join(out, "history.json"), b, 0o644)
	}
	fmt.Println(string(b))
}

func hexOf(s string) string {
	if s == "" {
		return ""
	}
	return strings.TrimPrefix(hx(s), "-")
}

// ---- C09 timing --------------------------------------------------------------------------------

type family struct {
	Name   string
	Pre    string
	Unit   string
	Suf    string
	Target string // "sqli" | "xss"
}

func timingFamilies(_ bool) []family {
	var fams []family
	sq := func(name, pre, unit, suf string) { fams = append(fams, family{name, pre, unit, suf, "sqli"}) }
	xs := func(name, pre, unit, suf string) { fams = append(fams, family{name, pre, unit, suf, "xss"}) }
	sq("escaped-quotes", "'", "\\'", "")
	sq("doubled-quotes", "'", "''", "")
	sq("escaped-quotes-virtual", "", "\\'", "")
	sq("doubled-dquotes", "\"", "\"\"", "")
	sq("backslashes-then-quote", "'", "\\\\", "'")
	sq("dollar-tags", "", "$t$", "")
	sq("dollar-open", "$tag$", "$ta", "")
	sq("dollar-dollar", "$$", "$", "")
	sq("comment-openers", "", "/*", "")
	sq("nested-comment", "/*", "/*a", "*/")
	sq("comment-stars", "/*", "*", "")
	sq("at-signs", "", "@", "")
	sq("at-ticks", "", "@`", "")
	sq("backticks", "", "`", "")
	sq("backtick-pairs", "`", "``", "")
	sq("brackets", "", "[", "")
	sq("bracket-pairs", "", "[]", "")
	sq("dot-keyword-split", "1=", ".not", "")
	sq("dot-words", "", "a.", "")
	sq("tick-words", "a", "`a", "")
	sq("long-word", "", "a", "")
	sq("q-string-open", "q'(", ")", "")
	sq("q-string-decoys", "q'(", ")x", "")
	sq("hex-x-string", "x'", "0", "")
	sq("numbers", "", "1e1", "")
	sq("dashes", "", "-", "")
	sq("dash-dash-nl", "", "--\n", "")
	sq("hash-nl", "", "#\n", "")
	sq("parens", "", "(", "")
	sq("unary", "1", "+-", "1")
	sq("or-chain", "1", " or 1", "")
	sq("union-chain", "1", " union select 1", "")
	sq("commas", "1", ",1", "")
	sq("semicolons", "1", ";", "")
	sq("mixed-quotes", "", "'\"", "")
	sq("n-strings", "", "n'", "")
	sq("u-strings", "", "u&'", "")
	sq("money", "", "$1,", "")
	sq("whitespace", "1", " ", "1")
	sq("nul-bytes", "1", "\x00", "1")
	xs("lt", "", "<", "")
	xs("slashes", "<a ", "/", "")
	xs("slashes-bare", "", "/", "")
	xs("dashes", "<!--", "-", "")
	xs("dash-nul", "<!--", "-\x00", "")
	xs("dash-bang", "<!--", "-!", "")
	xs("percent", "<%", "%", "")
	xs("percent-x", "<%", "%x", "")
	xs("rbracket", "<![CDATA[", "]", "")
	xs("rbracket-pairs", "<![CDATA[", "]]", "")
	xs("amp-hash", "<a href=\"", "&#", "\">")
	xs("amp-hash-digits", "<a href=\"", "&#1", "\">")
	xs("amp-hash-full", "<a href=\"", "&#106;", "\">")
	xs("attr-runs", "<a ", "b=c ", ">")
	xs("attr-names", "<a ", "b ", ">")
	xs("attr-quoted", "<a ", "b='c' ", ">")
	xs("open-tags", "", "<a>", "")
	xs("close-tags", "", "</a>", "")
	xs("lt-bang", "", "<!", "")
	xs("lt-question", "", "<?", "")
	xs("quotes", "", "'", "")
	xs("backquotes", "", "`", "")
	xs("equals", "", "=", "")
	xs("gt", "", ">", "")
	xs("nul-in-tag", "<a", "\x00", ">")
	xs("white", "<a", " ", ">")
	xs("comment-pairs", "", "<!---->", "")
	xs("cdata-pairs", "", "<![CDATA[]]>", "")
	xs("junk-url", "<a href=\"", "\x01", "javascript:\">")
	for _, pre := range []string{"<a href=\"", "<a href='", "<a href=", "<img src=", "<form action=\"", "x\" href=\"", "<a style=\"", "<a onclick=\"", "<a xmlns=\"", "<a b=\""} {
		for _, u := range []string{"x", "http://e/", "&#120;", "&#x78;", "&", "&#", "j", "java", "\n", "\x00"} {
			xs("attr-value:"+pre+"|"+u, pre, u, "")
		}
	}
	// closed constructs repeated: every opener is re-entered once per repetition
	for _, u := range []string{"'a' ", "\"a\" ", "`a` ", "/*a*/", "/*a*/ ", "$$a$$ ", "$t$a$t$ ", "[a] ", "q'(a)' ", "x'0F' ", "b'01' ", "n'a' ", "u&'a' ", "@`a` ", "@'a' ",
		"--a\n", "#a\n", "1e1 ", "0x1F ", "a.b ", "(1)", "{a}", "a`b ", "'a''b' ", "'a\\'b' ", "select 1;", "1 union select ", "a=b or "} {
		sq("closed:"+strings.TrimSpace(u), "", u, "")
	}
	// one representative per lexer branch, repeated with a joiner that keeps `fold` consuming input
	// (an operator chain folds for ever; a comma list stops after five tokens)
	for _, u := range []string{"1div", "1f", "1d", "1F", "1fu", "1du", "1e", "1e+", "1.", ".1", "1.e1", "0x", "0b", "0x1g", "$1", "$1.", "$a", "1fa", "1dz", "1e1f",
		"\\N", "\\", "a.b", "a`", "@", "@@", "@a", "?", ":", "^", "~", "!", "<=>", "!=", ":=", "&&", "||", "<>", "{a", "}", "null", "not", "in", "like", "user", "if"} {
		for _, j := range []string{" ", "+", " div ", " or ", ","} {
			sq("unit:"+u+"|"+j, "", u+j, "1")
		}
	}
	for _, u := range []string{"<!a>", "<!--a-->", "<!--a--!>", "<?a>", "<%a%>", "<![CDATA[a]]>", "<!doctype a>", "</a>", "</>", "</ a>", "<a>", "<a/>", "<a b='c'>", "<a b=\"c\">", "<a b=`c`>",
		"<a b=c>", "<a b>", "<a b=c d=e>", "<a/b/c>", "a<b", "<a href='&#106;'>", "<!-->", "<!--->", "<%%>", "<a\x00>", "' b='c", "\" b=\"c", "` b=`c", "b=c "} {
		xs("closed:"+u, "", u, "")
	}
	// every opener followed by a foreign (or its own) terminator, repeated: a state that falls back to another
	// construct's terminator, or re-scans to the end of input for each opener, is re-entered once per unit
	for _, o := range []string{"<%", "<!--", "<![CDATA[", "<!", "<?", "</!", "<a b='", "<a b=\"", "<a b=`", "<a b=", "<a "} {
		for _, t := range []string{">", "%>", "-->", "]]>", "'", "\"", "`", "--!>", "/>"} {
			xs("cross:"+o+"a"+t, "", o+"a"+t, "")
		}
	}
	for _, o := range []string{"'", "\"", "`", "/*", "$$", "$t$", "[", "q'(", "x'", "n'", "u&'", "@`", "--", "#", "e'"} {
		for _, t := range []string{"'", "\"", "`", "*/", "$$", "$t$", "]", ")'", "\n", " "} {
			sq("cross:"+o+"a"+t, "", o+"a"+t+" ", "")
		}
	}
	// one opener followed by a long run of its closing byte, in both parities of the run length (n is a power
	// of two, so one extra leading byte flips the parity of the run)
	for _, oc := range [][2]string{{"[", "]"}, {"'", "'"}, {"\"", "\""}, {"`", "`"}, {"$$", "$"}, {"$t$", "$"}, {"q'(", ")"}, {"q'(", "'"}, {"/*", "*"}, {"/*", "/"},
		{"x'", "'"}, {"@`", "`"}, {"'\\", "\\"}, {"{", "}"}, {"(", ")"}} {
		sq("run:"+oc[0]+"|"+oc[1], oc[0], oc[1], "")
		sq("run+1:"+oc[0]+"|"+oc[1], "1"+oc[0], oc[1], "")
	}
	for _, oc := range [][2]string{{"<!--", "-"}, {"<!--", ">"}, {"<%", "%"}, {"<%", ">"}, {"<![CDATA[", "]"}, {"<![CDATA[", ">"}, {"<a b='", "'"}, {"<a b=\"", "\""}, {"<a ", "/"},
		{"<a ", ">"}, {"<a b=", "="}, {"<", "\x00"}, {"</", "\x00"}, {"<a", "/"}, {"<!", "-"}, {"<a href=\"", "&"}, {"<a href=\"", ";"}} {
		xs("run:"+oc[0]+"|"+oc[1], oc[0], oc[1], "")
		xs("run+1:"+oc[0]+"|"+oc[1], "x"+oc[0], oc[1], "")
	}
	return fams
}

func (f family) build(n int) string {
	k := (n - len(f.Pre) - len(f.Suf)) / len(f.Unit)
	if k < 1 {
		k = 1
	}
	return f.Pre + strings.Repeat(f.Unit, k) + f.Suf
}

func (f family) run(s string) {
	defer func() { recover() }() // a panic is C01/C02's business, not a timing result
	if f.Target == "sqli" {
		li.IsSQLi(s)
	} else {
		li.IsXSS(s)
	}
}

func minTime(f family, s string, reps int) time.Duration {
	best := time.Duration(1 << 62)
	for i := 0; i < reps; i++ {
		t0 := time.Now()
		f.run(s)
		if d := time.Since(t0); d < best {
			best = d
		}
	}
	return best
}

type timingRow struct {
	Family string  `json:"family"`
	Target string  `json:"target"`
	N      int     `json:"n"`
	T1     float64 `json:"ms_n"`
	T4     float64 `json:"ms_4n"`
	T16    float64 `json:"ms_16n"`
	Ratio1 float64 `json:"ratio_4n_over_n"`
	Ratio2 float64 `json:"ratio_16n_over_4n"`
	NsByte float64 `json:"ns_per_byte_at_16n"`
	Bad    bool    `json:"violates"`
}

const ratioLimit = 8.0
const nsPerByteLimit = 2000.0

// cmdTiming: vharness timing -tier T
func cmdTiming(args []string) {
	fs := flag.NewFlagSet("timing", flag.ExitOnError)
	var tier, out string
	fs.StringVar(&tier, "tier", "quick", "")
	fs.StringVar(&out, "out", "", "")
	fs.Parse(args)
	fams := timingFamilies(tier == "thorough")
	nCap := 128 << 10
	if tier == "thorough" {
		nCap = 1 << 20
	}
	rep := newReport("C09", "for each adversarial family g: min-of-5 wall time of the detector at n, 4n, 16n with n raised until time(n) >= 1 ms (cap 256 kB); violation when both ratios exceed 8 on two consecutive measurements or the cost exceeds 2 us/byte at 16n; non-trivial = every family")
	var rows []timingRow
	measure := func(f family) timingRow {
		n := 4096
		var t1 time.Duration
		for {
			t1 = minTime(f, f.build(n), 3)
			if t1 >= time.Millisecond || n >= nCap {
				break
			}
			n *= 2
		}
		t1 = minTime(f, f.build(n), 5)
		t4 := minTime(f, f.build(4*n), 5)
		var t16 time.Duration
		if t4 < 3*time.Second {
			t16 = minTime(f, f.build(16*n), 3)
		} else {
			t16 = t4 * 16 // already far beyond any linear budget
		}
		row := timingRow{Family: f.Name, Target: f.Target, N: n, T1: ms(t1), T4: ms(t4), T16: ms(t16)}
		row.Ratio1 = float64(t4) / float64(maxDur(t1, 20*time.Microsecond))
		row.Ratio2 = float64(t16) / float64(maxDur(t4, 80*time.Microsecond))
		row.NsByte = float64(t16.Nanoseconds()) / float64(16*n)
		row.Bad = (row.Ratio1 > ratioLimit && row.Ratio2 > ratioLimit) || row.NsByte > nsPerByteLimit
		return row
	}
	for _, f := range fams {
		row := measure(f)
		if row.Bad { // a single noisy measurement is retried, never reported
			row2 := measure(f)
			if !row2.Bad {
				row = row2
			}
		}
		rows = append(rows, row)
		s := f.build(row.N)
		rep.eval(s, true)
		if row.Bad {
			rep.fail("superlinear-time", f.build(16*row.N), fmt.Sprintf("family %s (%s): n=%d %.2fms, 4n %.2fms, 16n %.2fms; ratios %.1f %.1f; %.0f ns/byte", f.Name, f.Target, row.N, row.T1, row.T4, row.T16, row.Ratio1, row.Ratio2, row.NsByte))
		}
	}
	sort.Slice(rows, func(i, j int) bool { return rows[i].Ratio2 > rows[j].Ratio2 })
	res := map[string]interface{}{"report": rep, "rows": rows}
	b, _ := json.MarshalIndent(res, "", " ")
	if out != "" {
		os.WriteFile(out, b, 0o644)
	}
	fmt.Println(string(b))
}

func ms(d time.Duration) float64 { return float64(d.Microseconds()) / 1000 }
func maxDur(a, b time.Duration) time.Duration {
	if a > b {
		return a
	}
	return b
}
