package main

// vharness mine -kind sqli|xss -out corpus/cover/<kind>.hex -n N
// Searches the generators for inputs with rare behavioural signatures (which parsing contexts were
// tried / fired, whether their fingerprints coincide, which whitelist-relevant shape they have; which
// XSS contexts fire) and keeps the shortest few per signature. The result is committed and replayed
// first by every stream (G0), so that a change confined to one context or one gate meets inputs that
// isolate it even in the quick tier.

import (
	"bufio"
	"flag"
	"fmt"
	"math/rand"
	"os"
	"sort"
	"strings"
	"sync"

	li "github.com/corazawaf/libinjection-go"
)

func sqliSignature(s string) string {
	if s == "" {
		return ""
	}
	var sb strings.Builder
	type pr struct {
		fp      string
		v, re   bool
		black   bool
		toks    int
		present bool
	}
	run := func(f int) pr {
		fp, black, v, st, status := li.VerifSQLiFingerprint(s, f)
		if status != "" {
			return pr{}
		}
		return pr{fp, v, st.DDX != 0 || st.Hash != 0, black, st.Tokens, true}
	}
	ps := []pr{run(9), run(17), run(10), run(18), run(20)}
	hasS, hasD := strings.IndexByte(s, '\'') >= 0, strings.IndexByte(s, '"') >= 0
	for i, p := range ps {
		c := byte('.')
		switch {
		case p.v:
			c = 'V'
		case p.black:
			c = 'b' // blacklisted but whitelisted away
		}
		sb.WriteByte(c)
		if i == 0 || i == 2 {
			if p.re {
				sb.WriteByte('r')
			}
		}
	}
	fmt.Fprintf(&sb, "|q%v%v", hasS, hasD)
	// fingerprint coincidences between ANSI and MySQL readings
	fmt.Fprintf(&sb, "|e%v%v", ps[0].fp == ps[1].fp, ps[2].fp == ps[3].fp)
	// shape of the deciding fingerprint (length class, last class)
	b, fp, _ := li.VerifIsSQLi(s)
	if b {
		last := fp[len(fp)-1]
		fmt.Fprintf(&sb, "|L%d%c", len(fp), last)
	} else {
		// which blacklisted-but-whitelisted fingerprints occur
		for _, p := range ps {
			if p.black && !p.v && len(p.fp) <= 3 {
				sb.WriteString("|w" + p.fp)
			}
		}
	}
	return sb.String()
}

func xssSignature(s string) string {
	var sb strings.Builder
	for ctx := 0; ctx < 5; ctx++ {
		v, st := li.VerifIsXSSCtx(s, ctx)
		switch {
		case st != "":
			sb.WriteByte('!')
		case v:
			sb.WriteByte('V')
		default:
			sb.WriteByte('.')
		}
	}
	// token-type set in the data state
	toks, _ := li.VerifH5Tokens(s, 0)
	seen := [10]bool{}
	for _, t := range toks {
		if t.Type >= 0 && t.Type < 10 {
			seen[t.Type] = true
		}
	}
	sb.WriteByte('|')
	for i, b := range seen {
		if b {
			fmt.Fprintf(&sb, "%d", i)
		}
	}
	return sb.String()
}

func cmdMine(args []string) {
	fs := flag.NewFlagSet("mine", flag.ExitOnError)
	var kind, out string
	var n int
	var seed int64
	fs.StringVar(&kind, "kind", "sqli", "")
	fs.StringVar(&out, "out", "", "")
	fs.IntVar(&n, "n", 2000000, "")
	fs.Int64Var(&seed, "seed", 7, "")
	fs.Parse(args)
	type ent struct{ s string }
	best := map[string][]string{}
	var mu sync.Mutex
	const keep = 6
	consider := func(s string) {
		var sig string
		if kind == "sqli" {
			sig = sqliSignature(s)
		} else {
			sig = xssSignature(s)
		}
		mu.Lock()
		l := best[sig]
		if len(l) < keep {
			best[sig] = append(l, s)
		} else {
			// replace the longest if this one is shorter
			mi := 0
			for i := range l {
				if len(l[i]) > len(l[mi]) {
					mi = i
				}
			}
			if len(s) < len(l[mi]) {
				dup := false
				for _, x := range l {
					if x == s {
						dup = true
					}
				}
				if !dup {
					l[mi] = s
				}
			}
		}
		mu.Unlock()
	}
	gen := func(emit func(string)) {
		rng := rand.New(rand.NewSource(seed))
		stream := "sq"
		if kind != "sqli" {
			stream = "hx"
		}
		g := &genCfg{stream: stream, tier: "quick", seed: seed, scale: 0.2}
		g.inputs(emit)
		for i := 0; i < n; i++ {
			if kind == "sqli" {
				emit(fragGen(rng, sqlFrag, sqlAlpha, 7))
			} else {
				emit(fragGen(rng, htmlFrag, htmlAlpha, 7))
			}
		}
	}
	parallel(gen, consider)
	var sigs []string
	for k := range best {
		sigs = append(sigs, k)
	}
	sort.Strings(sigs)
	f, _ := os.Create(out)
	w := bufio.NewWriter(f)
	fmt.Fprintf(w, "# behaviour-signature cover corpus (%s), mined by `vharness mine`; hex input, then the signature\n", kind)
	total := 0
	for _, k := range sigs {
		l := best[k]
		sort.Slice(l, func(i, j int) bool { return len(l[i]) < len(l[j]) || (len(l[i]) == len(l[j]) && l[i] < l[j]) })
		for _, s := range l {
			if len(s) > 200 {
				continue
			}
			fmt.Fprintf(w, "%s  # %s\n", hx(s), k)
			total++
		}
	}
	w.Flush()
	f.Close()
	fmt.Printf("%d signatures, %d inputs\n", len(sigs), total)
}
