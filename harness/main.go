package main

import (
	"fmt"
	"os"
)

func main() {
	if len(os.Args) < 2 {
		fmt.Fprintln(os.Stderr, "usage: vharness <tables|audit|gen|oracle|...> ...")
		os.Exit(2)
	}
	switch os.Args[1] {
	case "tables":
		cmdTables(os.Args[2:])
	case "gen":
		cmdGen(os.Args[2:])
	case "oracle":
		cmdOracle(os.Args[2:])
	case "audit":
		cmdAudit(os.Args[2:])
	case "history":
		cmdHistory(os.Args[2:])
	case "timing":
		cmdTiming(os.Args[2:])
	case "mine":
		cmdMine(os.Args[2:])
	case "c03fps":
		cmdC03Fps(os.Args[2:])
	case "c03try":
		cmdC03Try(os.Args[2:])
	case "tablecheck":
		cmdTableCheck(os.Args[2:])
	default:
		fmt.Fprintln(os.Stderr, "unknown command", os.Args[1])
		os.Exit(2)
	}
}
