package main

// Property oracles evaluated on the real package. Each oracle demands exactly what the
// property states; a failure carries the concrete input as the replay.

import (
	"encoding/hex"
	"encoding/json"
	"flag"
	"fmt"
	"hash/fnv"
	"os"
	"sort"
	"strings"
	"sync"
)

type failure struct {
	Prop   string `json:"property"`
	Kind   string `json:"kind"`
	Input  string `json:"input_hex"`
	Quoted string `json:"input_quoted"`
	Detail string `json:"detail"`
}

type report struct {
	mu        sync.Mutex
	Prop      string         `json:"property"`
	Evals     int            `json:"evaluations"`
	NonTriv   int            `json:"distinct_nontrivial"`
	Rule      string         `json:"rule"`
	Failures  []failure      `json:"failures"`
	NFail     int            `json:"failure_count"`
	Samples   []string       `json:"samples"`
	Hist      map[string]int `json:"histogram"`
	seen      map[uint64]struct{}
	nonSeen   map[uint64]struct{}
	sampleMod int
}

func newReport(prop, rule string) *report {
	return &report{Prop: prop, Rule: rule, Failures: []failure{}, Samples: []string{}, Hist: map[string]int{}, seen: map[uint64]struct{}{}, nonSeen: map[uint64]struct{}{}}
}

func h64(s string) uint64 {
	h := fnv.New64a()
	h.Write([]byte(s))
	return h.Sum64()
}

func clip(s string) string {
	if len(s) > 200 {
		return s[:200] + "..."
	}
	return s
}

func (r *report) fail(kind, input, detail string) {
	r.mu.Lock()
	defer r.mu.Unlock()
	r.NFail++
	if len(r.Failures) < 40 {
		in := input
		if len(in) > 1<<16 {
			in = in[:1<<16]
		}
		r.Failures = append(r.Failures, failure{r.Prop, kind, hex.EncodeToString([]byte(in)), fmt.Sprintf("%q", clip(input)), detail})
	}
}

// eval counts one evaluation; nontrivial marks the (distinct) input as non-trivial by the oracle's rule.
func (r *report) eval(input string, nontrivial bool) {
	r.mu.Lock()
	r.Evals++
	if nontrivial {
		k := h64(input)
		if _, ok := r.nonSeen[k]; !ok {
			r.nonSeen[k] = struct{}{}
			r.NonTriv++
			if len(r.Samples) < 6 && (r.NonTriv < 3 || r.NonTriv%7919 == 0) {
				r.Samples = append(r.Samples, fmt.Sprintf("%q", clip(input)))
			}
		}
	}
	r.mu.Unlock()
}

func (r *report) hist(k string) {
	r.mu.Lock()
	r.Hist[k]++
	r.mu.Unlock()
}

// parallel feeds inputs from a generator to n workers.
func parallel(gen func(emit func(string)), work func(s string)) {
	ch := make(chan string, 8192)
	var wg sync.WaitGroup
	for i := 0; i < 16; i++ {
		wg.Add(1)
		go func() {
			defer wg.Done()
			ev := newEvaluator()
			for s := range ch {
				ev.begin(s)
				work(s)
				ev.end()
			}
		}()
	}
	seen := map[uint64]struct{}{}
	gen(func(s string) {
		k := h64(s)
		if _, ok := seen[k]; ok {
			return
		}
		seen[k] = struct{}{}
		ch <- s
	})
	close(ch)
	wg.Wait()
}

type oracleCfg struct {
	prop      string
	tier      string
	seed      int64
	scale     float64
	onlySeeds bool
	seeds     []string // extra inputs (e.g. disagreeing correspondence inputs) explored first with their neighbourhood
}

func (c *oracleCfg) thorough() bool { return c.tier == "thorough" }

// stream returns the generator of a gen-stream plus the neighbourhood of the seed inputs.
func (c *oracleCfg) stream(name string) func(emit func(string)) {
	g := &genCfg{stream: name, tier: c.tier, seed: c.seed, scale: c.scale}
	return func(emit func(string)) {
		for _, s := range c.seeds {
			emit(s)
			for i := 1; i <= len(s) && i <= 64; i++ { // prefixes and suffixes
				emit(s[:len(s)-i])
				emit(s[i:])
			}
			emit(strings.ToUpper(s))
			emit(strings.ToLower(s))
			emit(s + s)
			emit(" " + s)
			emit("'" + s)
			emit("\"" + s)
		}
		if c.onlySeeds {
			return
		}
		g.inputs(emit)
	}
}

var oracles = map[string]func(c *oracleCfg) *report{}

func cmdOracle(args []string) {
	fs := flag.NewFlagSet("oracle", flag.ExitOnError)
	c := &oracleCfg{}
	var seedFile, out string
	fs.StringVar(&c.prop, "prop", "", "")
	fs.StringVar(&c.tier, "tier", "quick", "")
	fs.Int64Var(&c.seed, "seed", 1, "")
	fs.Float64Var(&c.scale, "scale", 1, "")
	fs.StringVar(&seedFile, "seeds", "", "hex lines explored first")
	fs.StringVar(&out, "out", "", "")
	fs.BoolVar(&c.onlySeeds, "only-seeds", false, "explore only the seed inputs and their neighbourhood")
	fs.Parse(args)
	if c.onlySeeds {
		c.scale = 0
	}
	if seedFile != "" {
		c.seeds = readHexLines(seedFile)
	}
	f, ok := oracles[c.prop]
	if !ok {
		fmt.Fprintln(os.Stderr, "no oracle for", c.prop)
		os.Exit(2)
	}
	r := f(c)
	sort.Slice(r.Failures, func(i, j int) bool { return len(r.Failures[i].Input) < len(r.Failures[j].Input) })
	b, _ := json.MarshalIndent(r, "", " ")
	if out != "" {
		os.WriteFile(out, b, 0o644)
	}
	fmt.Println(string(b))
}
