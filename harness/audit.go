package main

// vharness audit <repo> <Gen dir>: static whole-package audit for C05, from the source text of
// /repo's working tree (go/parser + go/types): package-level variables, every write site whose
// root is a package-level variable outside initialisers, `go` statements, imports, pointers to
// per-call state that escape to package level, and the call graph between HTML5 state methods.

import (
	"fmt"
	"go/ast"
	"go/importer"
	"go/parser"
	"go/token"
	"go/types"
	"os"
	"path/filepath"
	"sort"
	"strconv"
	"strings"
)

type auditResult struct {
	PkgVars      []string
	GlobalWrites []string
	GoStmts      int
	Imports      []string
	Impure       []string
	H5Calls      [][2]string
	InitFuncs    int
}

var impureImports = map[string]bool{"sync": true, "sync/atomic": true, "unsafe": true, "os": true, "time": true, "math/rand": true,
	"runtime": true, "io": true, "net": true, "reflect": true, "context": true, "crypto/rand": true, "syscall": true}

func runAudit(dir string) (*auditResult, error) {
	fset := token.NewFileSet()
	pkgs, err := parser.ParseDir(fset, dir, func(fi os.FileInfo) bool {
		return !strings.HasSuffix(fi.Name(), "_test.go") && fi.Name() != "verif_hooks.go"
	}, 0)
	if err != nil {
		return nil, err
	}
	pkg := pkgs["libinjection"]
	if pkg == nil {
		return nil, fmt.Errorf("package libinjection not found in %s", dir)
	}
	var names []string
	for n := range pkg.Files {
		names = append(names, n)
	}
	sort.Strings(names)
	var files []*ast.File
	for _, n := range names {
		files = append(files, pkg.Files[n])
	}
	conf := types.Config{Importer: importer.ForCompiler(fset, "source", nil)}
	info := &types.Info{Uses: map[*ast.Ident]types.Object{}, Defs: map[*ast.Ident]types.Object{}}
	tpkg, err := conf.Check("libinjection", fset, files, info)
	if err != nil {
		return nil, err
	}
	res := &auditResult{}
	pkgVars := map[types.Object]bool{}
	for _, nm := range tpkg.Scope().Names() {
		if v, ok := tpkg.Scope().Lookup(nm).(*types.Var); ok {
			pkgVars[v] = true
			res.PkgVars = append(res.PkgVars, nm)
		}
	}
	imports := map[string]bool{}
	var root func(e ast.Expr) types.Object
	root = func(e ast.Expr) types.Object {
		switch x := e.(type) {
		case *ast.Ident:
			if o := info.Uses[x]; o != nil {
				return o
			}
			return info.Defs[x]
		case *ast.IndexExpr:
			return root(x.X)
		case *ast.SelectorExpr:
			if o := root(x.X); o != nil {
				if _, isPkg := o.(*types.PkgName); isPkg {
					return info.Uses[x.Sel]
				}
				return o
			}
			return nil
		case *ast.StarExpr:
			return root(x.X)
		case *ast.ParenExpr:
			return root(x.X)
		case *ast.SliceExpr:
			return root(x.X)
		}
		return nil
	}
	rel := func(p token.Pos) string {
		pos := fset.Position(p)
		return fmt.Sprintf("%s:%d", filepath.Base(pos.Filename), pos.Line)
	}
	// parameters of reference type (map, slice, pointer) that receive a package-level variable (or
	// another tainted parameter) at some call site alias it: writes through them are global writes
	tainted := map[types.Object]string{}
	funcDecls := map[types.Object]*ast.FuncDecl{}
	for _, f := range files {
		for _, d := range f.Decls {
			if fd, ok := d.(*ast.FuncDecl); ok {
				if o := info.Defs[fd.Name]; o != nil {
					funcDecls[o] = fd
				}
			}
		}
	}
	isRefType := func(t types.Type) bool {
		switch t.Underlying().(type) {
		case *types.Map, *types.Slice, *types.Pointer:
			return true
		}
		return false
	}
	for changed := true; changed; {
		changed = false
		for _, f := range files {
			ast.Inspect(f, func(n ast.Node) bool {
				ce, ok := n.(*ast.CallExpr)
				if !ok {
					return true
				}
				var callee types.Object
				switch fn := ce.Fun.(type) {
				case *ast.Ident:
					callee = info.Uses[fn]
				case *ast.SelectorExpr:
					callee = info.Uses[fn.Sel]
				}
				fd := funcDecls[callee]
				if fd == nil || fd.Type.Params == nil {
					return true
				}
				var params []*ast.Ident
				for _, fl := range fd.Type.Params.List {
					params = append(params, fl.Names...)
				}
				for i, a := range ce.Args {
					if i >= len(params) {
						break
					}
					if ue, ok := a.(*ast.UnaryExpr); ok && ue.Op == token.AND {
						a = ue.X
					}
					o := root(a)
					if o == nil {
						continue
					}
					src := ""
					if pkgVars[o] {
						src = o.Name()
					} else if t, ok := tainted[o]; ok {
						src = t
					}
					if src == "" {
						continue
					}
					po := info.Defs[params[i]]
					if po == nil || !isRefType(po.Type()) {
						continue
					}
					if _, done := tainted[po]; !done {
						tainted[po] = src
						changed = true
					}
				}
				return true
			})
		}
	}
	for _, f := range files {
		for _, im := range f.Imports {
			p, _ := strconv.Unquote(im.Path.Value)
			imports[p] = true
		}
		for _, d := range f.Decls {
			fd, ok := d.(*ast.FuncDecl)
			if !ok || fd.Body == nil {
				continue
			}
			if fd.Name.Name == "init" && fd.Recv == nil {
				res.InitFuncs++
			}
			fn := fd.Name.Name
			note := func(kind string, e ast.Expr) {
				o := root(e)
				if o == nil {
					return
				}
				if pkgVars[o] {
					res.GlobalWrites = append(res.GlobalWrites, fmt.Sprintf("%s %s in %s at %s", kind, o.Name(), fn, rel(e.Pos())))
				} else if src, ok := tainted[o]; ok {
					// plain re-assignment of the parameter itself does not touch the global
					if id, isIdent := e.(*ast.Ident); isIdent && (kind == "assign" || kind == "address-of" || kind == "range-assign") && info.Uses[id] == o {
						return
					}
					res.GlobalWrites = append(res.GlobalWrites, fmt.Sprintf("%s through parameter %s (aliases %s) in %s at %s", kind, o.Name(), src, fn, rel(e.Pos())))
				}
			}
			ast.Inspect(fd.Body, func(n ast.Node) bool {
				switch x := n.(type) {
				case *ast.GoStmt:
					res.GoStmts++
				case *ast.AssignStmt:
					if x.Tok != token.DEFINE {
						for _, l := range x.Lhs {
							note("assign", l)
						}
					}
				case *ast.IncDecStmt:
					note("incdec", x.X)
				case *ast.UnaryExpr:
					if x.Op == token.AND {
						note("address-of", x.X)
					}
				case *ast.RangeStmt:
					if x.Tok == token.ASSIGN {
						if x.Key != nil {
							note("range-assign", x.Key)
						}
						if x.Value != nil {
							note("range-assign", x.Value)
						}
					}
				case *ast.CallExpr:
					if id, ok := x.Fun.(*ast.Ident); ok && (id.Name == "append" || id.Name == "copy" || id.Name == "delete" || id.Name == "clear") && len(x.Args) > 0 {
						if _, isBuiltin := info.Uses[id].(*types.Builtin); isBuiltin {
							note("builtin-"+id.Name, x.Args[0])
						}
					}
					// method call with pointer receiver on a package-level variable
					if se, ok := x.Fun.(*ast.SelectorExpr); ok {
						if sel, ok := info.Uses[se.Sel].(*types.Func); ok {
							if sig, ok := sel.Type().(*types.Signature); ok && sig.Recv() != nil {
								if _, ptr := sig.Recv().Type().(*types.Pointer); ptr {
									note("pointer-method-"+se.Sel.Name, se.X)
								}
							}
						}
					}
				}
				return true
			})
			if fd.Recv != nil && strings.HasPrefix(fn, "state") {
				ast.Inspect(fd.Body, func(m ast.Node) bool {
					if ce, ok := m.(*ast.CallExpr); ok {
						if se, ok := ce.Fun.(*ast.SelectorExpr); ok && strings.HasPrefix(se.Sel.Name, "state") {
							res.H5Calls = append(res.H5Calls, [2]string{fn, se.Sel.Name})
						}
					}
					return true
				})
			}
		}
	}
	for p := range imports {
		res.Imports = append(res.Imports, p)
		if impureImports[p] {
			res.Impure = append(res.Impure, p)
		}
	}
	sort.Strings(res.Imports)
	sort.Strings(res.Impure)
	sort.Strings(res.GlobalWrites)
	sort.Slice(res.H5Calls, func(i, j int) bool {
		if res.H5Calls[i][0] != res.H5Calls[j][0] {
			return res.H5Calls[i][0] < res.H5Calls[j][0]
		}
		return res.H5Calls[i][1] < res.H5Calls[j][1]
	})
	// dedupe call edges
	var calls [][2]string
	for i, e := range res.H5Calls {
		if i == 0 || e != res.H5Calls[i-1] {
			calls = append(calls, e)
		}
	}
	res.H5Calls = calls
	return res, nil
}

func leanStrList(l []string) string {
	q := make([]string, len(l))
	for i, s := range l {
		q[i] = strconv.Quote(s)
	}
	return "[" + strings.Join(q, ", ") + "]"
}

func cmdAudit(args []string) {
	dir, out := args[0], args[1]
	res, err := runAudit(dir)
	var b strings.Builder
	b.WriteString("/-! GENERATED from /repo's source text by vharness audit — do not edit. Whole-package audit for C05. -/\nnamespace LibInj.Gen.Audit\n\n")
	if err != nil {
		fmt.Fprintf(&b, "def ok : Bool := false\ndef error : String := %s\n", strconv.Quote(err.Error()))
		res = &auditResult{}
	} else {
		b.WriteString("def ok : Bool := true\ndef error : String := \"\"\n")
	}
	fmt.Fprintf(&b, "def pkgVars : List String := %s\n", leanStrList(res.PkgVars))
	fmt.Fprintf(&b, "def globalWrites : List String := %s\n", leanStrList(res.GlobalWrites))
	fmt.Fprintf(&b, "def goStmts : Nat := %d\n", res.GoStmts)
	fmt.Fprintf(&b, "def initFuncs : Nat := %d\n", res.InitFuncs)
	fmt.Fprintf(&b, "def imports : List String := %s\n", leanStrList(res.Imports))
	fmt.Fprintf(&b, "def impureImports : List String := %s\n", leanStrList(res.Impure))
	b.WriteString("def h5Calls : List (String × String) := [")
	for i, e := range res.H5Calls {
		if i > 0 {
			b.WriteString(", ")
		}
		fmt.Fprintf(&b, "(%s, %s)", strconv.Quote(e[0]), strconv.Quote(e[1]))
	}
	b.WriteString("]\n\nend LibInj.Gen.Audit\n")
	os.MkdirAll(out, 0o755)
	writeIfChanged(filepath.Join(out, "Audit.lean"), []byte(b.String()))
	fmt.Printf("audit: %d package vars, %d write sites, %d go statements, imports %v, %d state-call edges, err=%v\n", len(res.PkgVars), len(res.GlobalWrites), res.GoStmts, res.Imports, len(res.H5Calls), err)
	for _, w := range res.GlobalWrites {
		fmt.Println("  write:", w)
	}
}
