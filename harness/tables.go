package main

// Regenerates /verif/lean/LibInj/Gen/*.lean from the package as compiled from /repo's
// current working tree (data tables via the verif hooks). Files are only rewritten
// when their content changes so that lake rebuilds only what depends on a change.

import (
	"bytes"
	"fmt"
	"math/big"
	"os"
	"path/filepath"
	"sort"
	"strings"

	li "github.com/corazawaf/libinjection-go"
)

func writeIfChanged(path string, content []byte) {
	old, err := os.ReadFile(path)
	if err == nil && bytes.Equal(old, content) {
		return
	}
	if err := os.WriteFile(path, content, 0o644); err != nil {
		panic(err)
	}
}

func leanBytes(s string) string {
	parts := make([]string, len(s))
	for i := 0; i < len(s); i++ {
		parts[i] = fmt.Sprintf("%d", s[i])
	}
	return "[" + strings.Join(parts, ",") + "]"
}

var parserCtor = map[string]string{
	"parseWhite": "white", "parseOperator1": "op1", "parseOperator2": "op2", "parseOther": "other",
	"parseByte": "byte", "parseHash": "hash", "parseDash": "dash", "parseSlash": "slash",
	"parseBackSlash": "backslash", "parseString": "string", "parseWord": "word", "parseVar": "var",
	"parseNumber": "number", "parseTick": "tick", "parseUString": "ustring", "parseQString": "qstring",
	"parseNqString": "nqstring", "parseXString": "xstring", "parseBString": "bstring",
	"parseEString": "estring", "parseBWord": "bword", "parseMoney": "money",
}

type kwEntry struct {
	key string
	val byte
}

func sortedKeywords(m map[string]byte) []kwEntry {
	var es []kwEntry
	for k, v := range m {
		es = append(es, kwEntry{k, v})
	}
	sort.Slice(es, func(i, j int) bool {
		if len(es[i].key) != len(es[j].key) {
			return len(es[i].key) < len(es[j].key)
		}
		return es[i].key < es[j].key
	})
	return es
}

func keyNat(k string) string {
	n := new(big.Int).SetBytes([]byte(k))
	return n.String()
}

const kwChunk = 1200

// genKeywordFiles writes <prefix>0..N.lean chunk modules plus the joining module.
// writeTree renders a balanced search tree over the sorted entries as a nested constructor term.
func writeTree(b *strings.Builder, es []kwEntry, depth int) {
	if len(es) == 0 {
		b.WriteString("leaf")
		return
	}
	m := len(es) / 2
	ind := strings.Repeat(" ", depth)
	b.WriteString("node (")
	writeTree(b, es[:m], depth+1)
	fmt.Fprintf(b, ")\n%s%d %s %d\n%s(", ind, len(es[m].key), keyNat(es[m].key), es[m].val, ind)
	writeTree(b, es[m+1:], depth+1)
	b.WriteString(")")
}

func genKeywordFiles(dir, modPrefix, ns string, es []kwEntry, withTree bool) {
	n := (len(es) + kwChunk - 1) / kwChunk
	if n == 0 {
		n = 1
	}
	var imports, names, trees []string
	for c := 0; c < n; c++ {
		var b strings.Builder
		if withTree {
			b.WriteString("import LibInj.Sqli.KwTree\n")
		}
		fmt.Fprintf(&b, "/-! GENERATED from /repo by vharness tables — do not edit. -/\nnamespace %s\n\n", ns)
		fmt.Fprintf(&b, "def kwChunk%d : List (Nat × Nat × Nat) := [\n", c)
		lo, hi := c*kwChunk, (c+1)*kwChunk
		if hi > len(es) {
			hi = len(es)
		}
		for i := lo; i < hi; i++ {
			sep := ","
			if i == hi-1 {
				sep = ""
			}
			fmt.Fprintf(&b, "  (%d, %s, %d)%s\n", len(es[i].key), keyNat(es[i].key), es[i].val, sep)
		}
		fmt.Fprintf(&b, "]\n\n")
		if withTree {
			fmt.Fprintf(&b, "open LibInj.Sqli.KwTree in\ndef kwTree%d : LibInj.Sqli.KwTree :=\n", c)
			writeTree(&b, es[lo:hi], 1)
			b.WriteString("\n\n")
			trees = append(trees, fmt.Sprintf("kwTree%d", c))
		}
		fmt.Fprintf(&b, "end %s\n", ns)
		writeIfChanged(filepath.Join(dir, fmt.Sprintf("Kw%d.lean", c)), []byte(b.String()))
		imports = append(imports, fmt.Sprintf("import %s.Kw%d", modPrefix, c))
		names = append(names, fmt.Sprintf("kwChunk%d", c))
	}
	// remove stale chunk files
	for c := n; ; c++ {
		p := filepath.Join(dir, fmt.Sprintf("Kw%d.lean", c))
		if _, err := os.Stat(p); err != nil {
			break
		}
		os.Remove(p)
	}
	var b strings.Builder
	b.WriteString(strings.Join(imports, "\n"))
	fmt.Fprintf(&b, "\n/-! GENERATED from /repo by vharness tables — do not edit.\nThe keyword / fingerprint table `sqlKeywords`: (key length, key as base-256 number, class byte),\nsorted by (length, key). %d entries. -/\nnamespace %s\n\n", len(es), ns)
	fmt.Fprintf(&b, "def keywords : List (Nat × Nat × Nat) := [%s].flatten\n\n", strings.Join(names, ", "))
	if withTree {
		fmt.Fprintf(&b, "/-- the same table as a forest of balanced search trees, one per chunk -/\ndef kwTrees : List LibInj.Sqli.KwTree := [%s]\n\n", strings.Join(trees, ", "))
	}
	fmt.Fprintf(&b, "end %s\n", ns)
	writeIfChanged(filepath.Join(dir, "Keywords.lean"), []byte(b.String()))
}

func namedList(name string, l []li.VerifNamed) string {
	var b strings.Builder
	fmt.Fprintf(&b, "def %s : List (List UInt8 × Nat) := [\n", name)
	for i, e := range l {
		sep := ","
		if i == len(l)-1 {
			sep = ""
		}
		fmt.Fprintf(&b, "  (%s, %d)%s -- %s\n", leanBytes(e.Name), e.Type, sep, strings.Map(printable, e.Name))
	}
	b.WriteString("]\n\n")
	return b.String()
}

func printable(r rune) rune {
	if r < 32 || r > 126 {
		return '?'
	}
	return r
}

func genXss(dir, ns string, t li.VerifTables) {
	var b strings.Builder
	fmt.Fprintf(&b, "/-! GENERATED from /repo by vharness tables — do not edit. XSS black lists and hex map. -/\nnamespace %s\n\n", ns)
	b.WriteString("def blackTags : List (List UInt8) := [\n")
	for i, s := range t.BlackTags {
		sep := ","
		if i == len(t.BlackTags)-1 {
			sep = ""
		}
		fmt.Fprintf(&b, "  %s%s -- %s\n", leanBytes(s), sep, strings.Map(printable, s))
	}
	b.WriteString("]\n\n")
	b.WriteString(namedList("blacks", t.Blacks))
	b.WriteString(namedList("blackEvents", t.BlackEvents))
	b.WriteString("def hexMap : List Nat := [")
	for i, v := range t.HexMap {
		if i > 0 {
			b.WriteString(",")
		}
		if i%32 == 0 {
			b.WriteString("\n  ")
		}
		fmt.Fprintf(&b, "%d", v)
	}
	fmt.Fprintf(&b, "]\n\nend %s\n", ns)
	writeIfChanged(filepath.Join(dir, "Xss.lean"), []byte(b.String()))
}

func acceptBytes(tbl []byte) string {
	var parts []string
	for i, v := range tbl {
		if v == 1 {
			parts = append(parts, fmt.Sprintf("%d", i))
		}
	}
	return "[" + strings.Join(parts, ",") + "]"
}

func genSqliConsts(dir, ns string, t li.VerifTables) {
	var b strings.Builder
	fmt.Fprintf(&b, "import LibInj.Sqli.P\n/-! GENERATED from /repo by vharness tables — do not edit. Dispatch table, accept sets, constants. -/\nnamespace %s\nopen LibInj.Sqli\n\n", ns)
	b.WriteString("def dispatch : List P := [")
	for i, n := range t.Dispatch {
		if i > 0 {
			b.WriteString(",")
		}
		if i%8 == 0 {
			b.WriteString("\n  ")
		}
		c, ok := parserCtor[n]
		if !ok {
			c = "unknown"
		}
		b.WriteString("." + c)
	}
	b.WriteString("]\n\n")
	fmt.Fprintf(&b, "def wordAccept : List UInt8 := %s\n\n", acceptBytes(t.WordAccept))
	fmt.Fprintf(&b, "def varAccept : List UInt8 := %s\n\n", acceptBytes(t.VarAccept))
	fmt.Fprintf(&b, "def maxTokens : Nat := %d\n\ndef tokenSize : Nat := %d\n\nend %s\n", t.MaxTokens, t.TokenSize, ns)
	writeIfChanged(filepath.Join(dir, "SqliConsts.lean"), []byte(b.String()))
}

// cmdTables: vharness tables <dir> [modulePrefix namespace]
func cmdTables(args []string) {
	dir := args[0]
	modPrefix, ns := "LibInj.Gen", "LibInj.Gen"
	if len(args) >= 3 {
		modPrefix, ns = args[1], args[2]
	}
	os.MkdirAll(dir, 0o755)
	t := li.VerifGetTables()
	genKeywordFiles(dir, modPrefix, ns, sortedKeywords(t.Keywords), ns == "LibInj.Gen")
	genXss(dir, ns, t)
	genSqliConsts(dir, ns, t)
	fmt.Printf("tables: %d keywords, %d black tags, %d blacks, %d events\n", len(t.Keywords), len(t.BlackTags), len(t.Blacks), len(t.BlackEvents))
}
