package main

import li "github.com/corazawaf/libinjection-go"

func liTables() li.VerifTables { return li.VerifGetTables() }
