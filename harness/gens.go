package main

// Input generators. Every random choice derives from one PRNG seeded with VERIF_SEED.

import (
	"bufio"
	"encoding/hex"
	"math/rand"
	"os"
	"path/filepath"
	"sort"
	"strings"
)

// ---- alphabets -------------------------------------------------------------------------------

// SQL: one representative of every dispatch class and every byte a lexer compares against.
var sqlAlpha = []byte(" '\"`\\-#/*$.0e1xXbnNqQuU&@;(){}[]<=>!:|a_A,+%?\x00\xa0\xe9\n")

// HTML: every byte the state machine or the classifiers compare against.
var htmlAlpha = []byte("<>/='\"`!-?%[]a \x00D&#;x:")

// the 14 structural bytes (deeper exhaustive enumeration)
var htmlStruct = []byte("<>/='\"`!-%]a \x00")

var sqlFrag = []string{"select", "union", " or ", " and ", "1", "1=1", "--", "/*", "*/", "'", "\"", "\\'", "''",
	"$a$", "$$", "not.", ".", "`", "@@x", "0x1F", "1e5", "x'AB'", "\xe9", " ", "#", "\n", ";", "if(", "(", ")", ",",
	"n'", "u&'", "sleep(1)", "user()", "user(", "like", " in(", " in ", "collate", "a_b", "{", "}", "::", "int", "\\",
	"\\N", "sp_password", "all", "not", "is", "null", "distinct", "from", "into", "outfile", "q'(", ")'", "nq'[", "]'",
	"<=>", "!!", "||", "&&", "mod", "div", "1.2f", "$1,000", "$.", "[a]", "@`x`", "@'x'", "0b01", "current_user",
	"binary", "true", "*", "+", "-", "~", "!", "case", "when", "group by", "order by", "limit", "having", "exec",
	"declare", "waitfor", "delay", "un\xc4\xb1on", "\xc5\xbfelect", "/*!", "--\n", "-- ", "e'", "b'01'", "1.", ".1",
	"1e", "1e+", "0x", "0b", "1d", "1f;", "1fu", "$abc$", "$1", "@", "@@", "``", "`a`", "[", "]", "?", ":", ":=",
	"\x00", "\xa0", "\x7f", "\xff", "not in", "not like", "is not", "xor", "between", "user_id", "database",
	"localtime", "1;", "drop", "table", "insert", "values", "where", "sos", "into dumpfile", "{d", "`.`",
	"q'\xe9", "\xe9'", "n", "N", "Q", "u", "U", "x", "X", "b", "B", "e", "E"}

var htmlFrag = []string{"<script", "<a ", "href=", "src=", "style=", "onclick=", "ON\x00CLICK=", "javascript:", "JaVa",
	"&#106;", "&#x6a", "&#X6A;", "&#0000106", "vbscript:", "data:", "view-source:", "<!--", "-->", "-!>",
	"<![CDATA[", "]]>", "<%", "%>", "<?xml", "<?import", "<!ENTITY", "<!doctype", "<!--[if", "`", "<svg", "<svt",
	"<xsl", "xmlns", "xlink:href=", "attributename=", "<iframe", "</", ">", "/>", "'", "\"", " ", "\t", "\n", "\x00",
	"=", "x", "<\xc4\xb1frame", "<\xc5\xbfcript", "\xe9", "\xff", "&", "#", ";", "formaction=", "to=", "by=",
	"filter=", "datasrc=", "<x ", "&#x100006A;", "&#1114367;", "&#x1000FF;", "&#x100100;", "-", "--", "-\x00-", "]",
	"]]", "%", "<", "<<", "/", "//", "<!", "<?", "</a", "<a/", "<a\x00b", "on", "ON", "onerror", "\x0b", "\x0c", "\r",
	"<!DOCTYPE ", "<![cdata[", "[CDATA[", "<p", "<br/>", "a=b", "a='b'", "a=\"b\"", "a=`b`", "<\xe2\x84\xaa", "&#", "&#x",
	"&#;", "&#x;", "&#1", "&#x1", "java\nscript:", "java\x00script:", "\x01javascript:", "\x7fdata:", "<embed", "<object",
	"<style", "<link", "<meta", "<base", "<form", "<frame", "<applet", "<body", "<html", "<import", "<isindex", "<xml",
	"<bgsound", "<blink", "<layer", "<ilayer", "<frameset", "<marquee", "action=", "dataformatas=", "xlink", "XMLNS",
	"&Tab;", "&NewLine;", "&colon;", "&lpar;", "&rpar;", "&amp;", "&lt;", "&gt;", "&quot;", "&apos;", "&nbsp;", "&sol;", "&semi;"}

// ---- corpus ----------------------------------------------------------------------------------

func readHexLines(path string) []string {
	f, err := os.Open(path)
	if err != nil {
		return nil
	}
	defer f.Close()
	var out []string
	sc := bufio.NewScanner(f)
	sc.Buffer(make([]byte, 1<<20), 1<<26)
	for sc.Scan() {
		line := strings.TrimSpace(sc.Text())
		if line == "" || strings.HasPrefix(line, "#") {
			continue
		}
		if i := strings.IndexByte(line, ' '); i >= 0 { // "hex  # comment"
			line = line[:i]
		}
		if line == "-" {
			out = append(out, "")
			continue
		}
		b, err := hex.DecodeString(line)
		if err == nil {
			out = append(out, string(b))
		}
	}
	return out
}

// repoFixtures returns the INPUT sections of /repo/tests/*.txt whose names start with prefix.
func repoFixtures(prefix string) []string {
	ents, _ := os.ReadDir("/repo/tests")
	var names []string
	for _, e := range ents {
		if strings.HasPrefix(e.Name(), prefix) {
			names = append(names, e.Name())
		}
	}
	sort.Strings(names)
	var out []string
	for _, n := range names {
		b, err := os.ReadFile(filepath.Join("/repo/tests", n))
		if err != nil {
			continue
		}
		t := string(b)
		i := strings.Index(t, "--INPUT--")
		j := strings.Index(t, "--EXPECTED--")
		if i >= 0 && j > i {
			out = append(out, strings.TrimSpace(t[i+9:j]))
		}
	}
	return out
}

var verifDir = "/verif"

func corpus(kind string) []string {
	var out []string
	out = append(out, readHexLines(filepath.Join(verifDir, "corpus", "regress", kind+".hex"))...)
	out = append(out, readHexLines(filepath.Join(verifDir, "corpus", "cover", kind+".hex"))...)
	switch kind {
	case "sqli":
		out = append(out, repoFixtures("test-sqli")...)
		out = append(out, repoFixtures("test-folding")...)
		out = append(out, repoFixtures("test-tokens")...)
	case "xss":
		out = append(out, repoFixtures("test-html5")...)
		out = append(out, repoFixtures("test-xss")...)
		out = append(out, readLines("/repo/tests/xss-positive.txt")...)
	}
	return out
}

func readLines(path string) []string {
	b, err := os.ReadFile(path)
	if err != nil {
		return nil
	}
	var out []string
	for _, l := range strings.Split(string(b), "\n") {
		l = strings.TrimSpace(l)
		if l != "" && !strings.HasPrefix(l, "#") {
			out = append(out, l)
		}
	}
	return out
}

// ---- generators ------------------------------------------------------------------------------

// exhaustive emits every string of length <= maxLen over alpha, prefixed by pre.
func exhaustive(pre string, alpha []byte, maxLen int, emit func(string)) {
	buf := make([]byte, 0, len(pre)+maxLen)
	buf = append(buf, pre...)
	var rec func(d int)
	rec = func(d int) {
		emit(string(buf))
		if d == maxLen {
			return
		}
		for _, c := range alpha {
			buf = append(buf, c)
			rec(d + 1)
			buf = buf[:len(buf)-1]
		}
	}
	rec(0)
}

func fragGen(rng *rand.Rand, frags []string, alpha []byte, maxFrag int) string {
	var sb strings.Builder
	n := rng.Intn(maxFrag + 1)
	for j := 0; j < n; j++ {
		switch rng.Intn(4) {
		case 0:
			sb.WriteByte(alpha[rng.Intn(len(alpha))])
		case 1:
			sb.WriteByte(' ')
			sb.WriteString(frags[rng.Intn(len(frags))])
		default:
			sb.WriteString(frags[rng.Intn(len(frags))])
		}
	}
	return sb.String()
}

func mutate(rng *rand.Rand, s string, alpha []byte) string {
	b := []byte(s)
	n := 1 + rng.Intn(3)
	for k := 0; k < n; k++ {
		switch rng.Intn(8) {
		case 0: // flip
			if len(b) > 0 {
				b[rng.Intn(len(b))] = alpha[rng.Intn(len(alpha))]
			}
		case 1: // insert
			i := rng.Intn(len(b) + 1)
			b = append(b[:i], append([]byte{alpha[rng.Intn(len(alpha))]}, b[i:]...)...)
		case 2: // delete
			if len(b) > 0 {
				i := rng.Intn(len(b))
				b = append(b[:i], b[i+1:]...)
			}
		case 3: // case flip
			if len(b) > 0 {
				i := rng.Intn(len(b))
				c := b[i]
				if c >= 'a' && c <= 'z' {
					b[i] = c - 32
				} else if c >= 'A' && c <= 'Z' {
					b[i] = c + 32
				}
			}
		case 4: // NUL / high byte
			i := rng.Intn(len(b) + 1)
			x := []byte{0, 0xa0, 0xe9, 0xff, 0x7f}[rng.Intn(5)]
			b = append(b[:i], append([]byte{x}, b[i:]...)...)
		case 5: // tail duplication
			if len(b) > 0 {
				i := rng.Intn(len(b))
				b = append(b, b[i:]...)
			}
		case 6: // truncate
			if len(b) > 0 {
				b = b[:rng.Intn(len(b))]
			}
		case 7: // splice two halves swapped
			if len(b) > 1 {
				i := rng.Intn(len(b))
				b = append(append([]byte{}, b[i:]...), b[:i]...)
			}
		}
		if len(b) > 4096 {
			b = b[:4096]
		}
	}
	return string(b)
}

// construct templates cut at every offset and followed by decoy tails
var sqlTemplates = []string{"q'(a)'", "q'[a]'", "q'{a}'", "q'<a>'", "q'!a!'", "nq'(a)'", "Q'\xe9a\xe9'", "$t$a$t$", "$$a$$", "$tag$x$tag$y",
	"0x1F", "0b101", "0xG", "1e+5d", "1.5e-3f", "12.", ".5", "1.2f;", "1dU", "/*!a*/", "/*a*/", "/*a/*b*/", "/**/", "@@`v`", "@`v`",
	"@'v'", "@\"v\"", "@@v", "@v", "u&'a'", "U&'a\\'b'", "x'0F'", "X'0f'x", "b'01'", "B'012'", "n'a'", "N'a''b'", "e'a\\'b'",
	"E'a'", "'a'", "'a''b'", "'a\\'b'", "'a\\\\'", "\"a\"", "\"a\"\"b\"", "`a`", "`a``b`", "[a]", "[a", "--a\n1", "-- a\n1", "#a\n1",
	"<=>", "!!", "!=", "<>", ":=", "::", "||", "&&", "\\N", "\\n", "$1,000.00", "$.5", "$.", "$a", "$ab$", "select.1",
	"union`a`", "a.b", "a.select", "1 union select 1", "1 or 1=1", "' or ''='", "1;drop table a", "a collate b_c",
	"{d '1'}", "{`a`}", "sleep(1)", "user()", "user(1)", "1 in (1)", "1 not in (1)", "a like(1)", "1,-1", "select -1",
	"select .`a`", "1::int", "int 1", ";if(1)", "\\+1", "\\1", "((1))", "1))", "1}", "sp_password--", "1 into outfile 'a'",
	"1 group by 1", "'a'+'b", "a' and 1", "1 and 17", "x' and 1 --", "1 union", "1 #a", "1 /*a*/", "1 --", "1--", " 1--", " 1/*", "1/*"}

var htmlTemplates = []string{"<![CDATA[a]]>b", "<![CDATA[]]]>b", "<!--a-->b", "<!--a--!>b", "<!--a-\x00->b", "<!--a-!>b", "<!---->b", "<%a%>b",
	"<%%%>b", "<%a%%>b", "<?a>b", "<?xml a>b", "<?import a>b", "<!a>b", "<!ENTITY a>b", "<!doctype a>b", "<!DOCTYPE>b", "</a>b", "</!a>b", "</>b",
	"<a b='c'/>d", "<a b=\"c\">d", "<a b=`c`>d", "<a b=c>d", "<a b = c>d", "<a b>d", "<a/b>d", "<a / b>d", "<a//>d", "<a\x00b c>d",
	"<script>a", "<a onclick=b>c", "<a href=javascript:b>c", "<a href='&#106;ava'>", "<a style=b>", "<a xmlns=b>", "<a filter=b>",
	"<a attributename=onclick>", "<a to=b>", "<!--[if a]>b", "<!--`-->", "<%`%>", "&#x6a;", "&#106", "&#x1000FF;", "&#1114368;",
	"a<b", "a<", "<", "<a", "<a ", "<a b", "<a b=", "<a b='", "a' onclick=b", "a\" onclick=b", "a` onclick=b", " onclick=b", "a>b<c",
	"'><script>", "\"><script>", "`><script>", "><script>", "<svg/onload=a>", "<a/onclick=b>", "<a\nonclick\n=\nb>", "<a \x00onclick=b>"}

var sqlDecoys = []string{"", "'", "\"", "`", "*/", "\n", "$$", "$t$", ")'", "]'", "\\'", "''", " -- ", " union select 1"}
var htmlDecoys = []string{"", ">", "]]>", "-->", "-!>", "%>", "'", "\"", "`", "<", " ", "/>", "<script>"}

func truncations(templates, decoys []string, emit func(string)) {
	for _, t := range templates {
		for i := 0; i <= len(t); i++ {
			for _, d := range decoys {
				emit(t[:i] + d)
				if i < len(t) {
					emit(t[:i] + d + t[i:])
				}
			}
		}
	}
}

// length boundaries of the 31-byte token clip and of merges whose joined length is 31..33
func sqlLengthBoundaries(emit func(string)) {
	for _, n := range []int{29, 30, 31, 32, 33, 34, 63, 64, 65} {
		w := strings.Repeat("a", n)
		for _, t := range []string{w, "'" + w + "'", "`" + w + "`", "[" + w + "]", "@" + w, "@@" + w, strings.Repeat("1", n), "0x" + strings.Repeat("F", n),
			"/*" + w + "*/", "--" + w, "$t$" + w + "$t$", "q'(" + w + ")'", "x'" + strings.Repeat("0", n) + "'", w + ".select", "select." + w,
			w + " union select 1", "1 union " + w, "$" + strings.Repeat("1", n), w[:n/2] + "." + w[n/2:], w[:n-4] + "`sel"} {
			emit(t)
			emit("1 " + t)
			emit(t + " 1")
		}
	}
	// merges: "a b" looked up when len(a)+len(b)+1 <= 32
	for la := 1; la <= 31; la += 5 {
		for _, lb := range []int{31 - la - 1, 31 - la, 32 - la, 33 - la} {
			if lb < 1 {
				continue
			}
			emit(strings.Repeat("a", la) + " " + strings.Repeat("b", lb))
			emit("union " + strings.Repeat("a", la) + " " + strings.Repeat("b", lb))
		}
	}
	// runs of one byte at the lengths where a bounded counter, a clipped value or a buffer could flip:
	// escape characters and delimiters before a delimiter, repeated operators, NULs, white space
	for _, emitRun := range []func(string){emit} {
		runByteFamilies(emitRun)
	}
	// long words at offsets past the middle of the input (a window computed from the wrong origin)
	for _, lw := range []int{31, 32, 33, 34, 40, 64, 65} {
		for _, lp := range []int{1, 8, 31, 32, 33, 40, 64, 70} {
			for _, tail := range []string{"", "select", "union", "or"} {
				w := strings.Repeat("b", lw) + tail
				emit(strings.Repeat("a", lp) + " " + w)
				emit(strings.Repeat("1", lp) + " " + w + " " + w)
				emit("'" + strings.Repeat("a", lp) + "' " + w)
			}
		}
	}
	// the five-token special cases of fold, with a sixth token already in the window and without
	for _, core := range []string{"1,(1)", "1+(1)", "1=(1)", "x=(1)", "x=(y)", "x<(1)", "1),(1", "x)=(y", "x)+(y", "1) , ( 1", "x ) = ( y"} {
		for _, pre := range []string{"", "(", "-", "1 or ", "x,", "select "} {
			for _, suf := range []string{"", " 2", "x", ",2", ")", "(", " or 1", ";", "'a'", " union", "-- ", ",(2)", ")=(1", " x y", " 1 2 3", "=1", ") or (1"} {
				emit(pre + core + suf)
			}
		}
	}
	// ... and completed only by a re-categorisation when six tokens are in the window
	for _, t := range []string{"1),(\\+1", "1),(\\*2", "1),(\\-", "1),(\\/x", "x)=(in 1", "x)=(in y", "x)+(not in z", "x)=(in 'a'", "1 ),( \\ + 1", "y ) < ( in 2",
		"1,(\\+)", "x=(in)", "x=(in) 1", "1+(\\*) 2"} {
		for _, pre := range []string{"", "(", "-"} {
			emit(pre + t)
			emit(pre + t + " or 1=1")
		}
	}
	emit("is not distinct from")
	emit("not similar to")
	emit("natural left outer join")
	emit("current_timestamp(")
	emit("intersect all select")
}

var runLengths = []int{1, 2, 3, 4, 5, 6, 7, 8, 15, 16, 17, 30, 31, 32, 33, 34, 35, 36, 63, 64, 65, 66, 127, 128, 129, 255, 256, 257}

// runs of a single byte inside and around quoted literals and at token level
func runByteFamilies(emit func(string)) {
	for _, k := range runLengths {
		for _, d := range []string{"'", "\"", "`"} {
			bs := strings.Repeat("\\", k)
			dd := strings.Repeat(d, k)
			for _, t := range []string{
				d + bs + d + "x" + d + "1", d + bs + d + " or 1=1 --" + d, bs + d + "x" + d + "1", "a" + bs + d + "x" + d + "1",
				d + "a" + bs + d + " union select 1", d + dd + "x" + d + "1", dd + "1", "1" + dd + " or " + dd,
				d + bs + dd + "x", "q'(" + strings.Repeat(")", k) + "'1", "$$" + strings.Repeat("$", k) + "1", "$a$" + strings.Repeat("$a", k) + "$1",
			} {
				emit(t)
			}
		}
		cm := "/*" + strings.Repeat("A", k) + "*/"
		for _, t := range []string{"1 or" + cm + "1=1", cm + "1", "1" + cm + "union" + cm + "select 1", "x'" + cm + "or 1=1", "/*!" + strings.Repeat("A", k) + "*/1",
			"--" + strings.Repeat("A", k) + "\n1 or 1=1", "#" + strings.Repeat("A", k) + "\nunion select 1", "[" + strings.Repeat("A", k) + "] or 1=1",
			"`" + strings.Repeat("A", k) + "` or 1=1", "@" + strings.Repeat("A", k) + " or 1=1", "0x" + strings.Repeat("A", k) + " or 1=1", strings.Repeat("1", k) + " or 1=1"} {
			emit(t)
		}
		tag := "$" + strings.Repeat("a", k) + "$"
		for _, t := range []string{tag + "x" + tag + " or 1=1", tag + " or 1=1", "1 or " + tag + "x" + tag + "=1", tag + "x$" + strings.Repeat("a", k) + "b" + tag} {
			emit(t)
		}
		for _, b := range []string{"\\", "-", "/", "*", "#", "@", "(", ")", ".", ";", "!", "\x00", " ", "\xa0", "{", "}", "e", "1"} {
			r := strings.Repeat(b, k)
			emit(r)
			emit("1" + r + "1")
			emit("1 or " + r + " 1")
		}
	}
}

// byteSweep: every seed with each of the 256 byte values substituted at, and inserted before, each position
// (and appended): a change confined to one byte value at one syntactic position — a letter missing from a
// table, a new two-letter literal prefix, a high-bit twin of a structural byte — meets an input that has it.
func byteSweep(seeds []string, emit func(string)) {
	for _, sd := range seeds {
		for i := 0; i <= len(sd); i++ {
			for b := 0; b < 256; b++ {
				c := string([]byte{byte(b)})
				emit(sd[:i] + c + sd[i:])
				if i < len(sd) {
					emit(sd[:i] + c + sd[i+1:])
				}
			}
		}
	}
}

var sqlSweepSeeds = []string{"x'41'", "b'01'", "n'a'", "u&'a'", "q'(a)'", "e'a'", "0x1F", "0b01", "1e5", "1.5", "$1.5", "$$a$$", "$t$a$t$", "@a", "@@a", "@`a`",
	"`a`", "[a]", "/*a*/", "--a", "#a", "a.b", "1 or 1", "1;if(", "a(1)", "user(", "not 1", "a in(", "a like(", "{a 1}", "\\N", "<=>", "||", "&&", ":=", "!=",
	"1fu", "1du", "a b", "'a'", "\"a\"", "1,2", "(1)", "-1", "~1", "union select", "1 union", "x)=(1", "1),(1", "'a' 'b'", "1 -- a", "sp_password", "X'41'", "x''--", "B'01'", "N'a'", "U&'a'", "Q'(a)'", "E'a'", "0X1F", "0B01", "1E5", "localtime(1)", "1;IF("}

var htmlSweepSeeds = []string{"<a>", "<a b=c>", "<a b='c'>", "<a/b>", "</a>", "<!a>", "<!--a-->", "<?a>", "<%a%>", "<![CDATA[a]]>", "<!doctype>", "a=b", "a b=c",
	"' a=b", "\" a=b", "` a=b", "<a href=j>", "<a on=1>", "<a onclick=1>", "<a style=1>", "<svg>", "<a xmlns=1>", "x>", "/>", "<a b = c>", "<a b=&#65;>",
	"<ab c>", "</ab`>", "onclick=1", "x onclick=1>", "<a href=\"java&Tab;script:alert(1)\">", "<a href=javascript&colon;alert&lpar;1&rpar;>",
	"<a href='vb&NewLine;script:x'>", "&lt;script&gt;", "<a href=\"?a=1&b=2&c=3\">"}

var unitSweepSeeds = []string{"&#65;", "&#x41;", "&#65", "&#x41", "&#065;", "javascript:", "data:", "vbscript:", "view-source:", "onclick", "script", "style", "href", "xmlns",
	"xlink:href", "svg", "&#106;avascript:", "j&#x61;vascript:", "on", "iframe", "java&Tab;script:", "vb&NewLine;script:", "javascript&colon;",
	"data&colon;", "&lt;script&gt;", "&amp;#106;avascript:", "j&amp;vascript:"}

// unicodeTwins: multi-byte sequences that a "best-fit" / normalising change could start treating like the ASCII
// byte c: the fullwidth form (U+FF00 block), well-known look-alikes of angle brackets, quotes and '=', and the
// overlong two- and three-byte UTF-8 encodings of c itself.
func unicodeTwins(c byte) []string {
	var out []string
	enc := func(r rune) string { return string(r) }
	if c >= 0x21 && c <= 0x7e {
		out = append(out, enc(rune(0xFF00+int(c)-0x20)))
	}
	switch c {
	case '<':
		out = append(out, enc(0x2039), enc(0x3008), enc(0xFE64), enc(0x00AB), enc(0x2329))
	case '>':
		out = append(out, enc(0x203A), enc(0x3009), enc(0xFE65), enc(0x00BB), enc(0x232A))
	case '\'':
		out = append(out, enc(0x2018), enc(0x2019), enc(0x02B9), enc(0x02BC), enc(0x2032))
	case '"':
		out = append(out, enc(0x201C), enc(0x201D), enc(0x2033), enc(0x02BA))
	case '`':
		out = append(out, enc(0x2035), enc(0x02CB))
	case '=':
		out = append(out, enc(0xFE66), enc(0x2550))
	case '-':
		out = append(out, enc(0x2010), enc(0x2013), enc(0x2212))
	case '/':
		out = append(out, enc(0x2215), enc(0x2044))
	case ' ':
		out = append(out, enc(0x00A0), enc(0x2003), enc(0x3000), enc(0x200B))
	}
	out = append(out, string([]byte{0xC0 | c>>6, 0x80 | c&0x3f}), string([]byte{0xE0, 0x80 | c>>6, 0x80 | c&0x3f}))
	return out
}

// twinSweep: every seed with each structural byte replaced by (and preceded by) each of its multi-byte twins
func twinSweep(seeds []string, structural string, emit func(string)) {
	for _, sd := range seeds {
		for i := 0; i < len(sd); i++ {
			if strings.IndexByte(structural, sd[i]) < 0 {
				continue
			}
			for _, tw := range unicodeTwins(sd[i]) {
				emit(sd[:i] + tw + sd[i+1:])
				emit(sd[:i] + tw + sd[i:])
				emit(sd[:i+1] + tw + sd[i+1:])
			}
		}
	}
}

// longPadded: short payloads followed (or preceded) by padding up to lengths around the usual buffer sizes, then
// a tail that changes the reading: a detector that silently analyses only a prefix (or a suffix) of its input
// disagrees with the model on these.
func longPadded(emit func(string)) {
	// the model scans lists (quadratic in the number of tokens), so the padding is one long word, or blanks up to 4 kB
	for _, n := range []int{1023, 1024, 1025, 4095, 4096, 4097, 8193, 16385} {
		for _, pad := range []string{"a", " "} {
			if pad == " " && n > 4097 {
				continue
			}
			fill := func(k int) string {
				if k <= 0 {
					return ""
				}
				return strings.Repeat(pad, k)
			}
			for _, head := range []string{"1 or 1=1 ", "1 union select 1 ", "x' or 'a'='a "} {
				for _, tail := range []string{" x", "'", " --", " union select 1"} {
					emit(head + fill(n-len(head)-len(tail)) + tail)
					emit(fill(n-len(head)-len(tail)) + " " + head + tail)
					emit(head + fill(n-len(head)) + tail)
				}
			}
		}
	}
	// comma lists: the only shape on which `fold` keeps reading tokens without the window filling up — limits on the
	// number of tokens read show here (sizes kept small: the model is quadratic in the number of tokens)
	for _, k := range []int{255, 256, 257, 511, 512, 513, 1023, 1024, 1025} {
		emit("1" + strings.Repeat(", 1", k))
		emit("1" + strings.Repeat(",1", k) + " union select 1")
		emit("a" + strings.Repeat(",b", k) + "' or 1=1--")
	}
}
