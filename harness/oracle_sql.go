package main

import (
	"fmt"
	"math/rand"
	"runtime/debug"
	"strings"
	"time"

	li "github.com/corazawaf/libinjection-go"
)

func init() {
	oracles["C01"] = oracleC01
	oracles["C03"] = oracleC03
	oracles["C08"] = oracleC08
	oracles["C10"] = oracleC10
	oracles["C12"] = oracleC12
	oracles["C14"] = oracleC14
	oracles["C16"] = oracleC16
	oracles["C18"] = oracleC18
}

const classAlphabet = "kUBEtfn1vso&cA(){}.,:;T?XF\\"

// ---- C01 ---------------------------------------------------------------------------------------

func longInputs(units []string, sizes []int, emit func(string)) {
	for _, u := range units {
		if u == "" {
			continue
		}
		for _, n := range sizes {
			emit(strings.Repeat(u, n/len(u)+1))
		}
	}
}

func oracleC01(c *oracleCfg) *report {
	r := newReport("C01", "every generated SQL input under tokenize/fold/fingerprint in the six modes and IsSQLi; non-trivial = at least two raw tokens as-is; plus long repetitions of every fragment")
	debug.SetMaxStack(64 << 20)
	parallel(c.stream("sq"), func(s string) {
		nt := false
		for _, f := range sqlModes {
			toks, _, _, st := li.VerifSQLiTokens(s, f)
			if st != "" {
				r.fail("tokenize-"+st, s, fmt.Sprintf("flags=%d", f))
			}
			if f == 9 && len(toks) >= 2 {
				nt = true
			}
			if _, _, st := li.VerifSQLiFold(s, f); st != "" {
				r.fail("fold-"+st, s, fmt.Sprintf("flags=%d", f))
			}
			if _, _, _, _, st := li.VerifSQLiFingerprint(s, f); st != "" {
				r.fail("fingerprint-"+st, s, fmt.Sprintf("flags=%d", f))
			}
		}
		if _, _, st := li.VerifIsSQLi(s); st != "" {
			r.fail("IsSQLi-"+st, s, "")
		}
		r.eval(s, nt)
	})
	// long inputs: every fragment, every alphabet byte and a set of pairs, repeated
	var units []string
	units = append(units, sqlFrag...)
	for _, b := range sqlAlpha {
		units = append(units, string([]byte{b}))
	}
	for _, p := range []string{"\\'", "''", "'\\", "$a$b", "/*/", "*/*", "-- \n", "@`", "[]", "1e", ".1", "1.", "q'(", "x'", "0x", "(1", "1)", ",1", "1,", "a.", ".a", "`a", " or", "or "} {
		units = append(units, p)
	}
	sizes := []int{1 << 16}
	if c.thorough() {
		sizes = []int{1 << 16, 1 << 20, 1 << 22}
	}
	ev := newEvaluator()
	longInputs(units, sizes, func(s string) {
		fmt.Fprintf(progress, "LONG unit=%q len=%d\n", clip(s[:min(len(s), 8)]), len(s))
		ev.beginLimit(s, 60*time.Second)
		t0 := time.Now()
		defer ev.end()
		if _, _, st := li.VerifIsSQLi(s); st != "" {
			r.fail("IsSQLi-long-"+st, s, fmt.Sprintf("len=%d unit=%q", len(s), clip(s[:8])))
		}
		if d := time.Since(t0); d > 20*time.Second {
			r.fail("IsSQLi-long-slow", s, fmt.Sprintf("len=%d took %v", len(s), d))
		}
		r.eval(s, true)
		r.hist(fmt.Sprintf("long-%d", len(s)>>16<<16))
	})
	return r
}

// ---- C03 ---------------------------------------------------------------------------------------

// The canonical grammar, calibrated on the current tree (DESIGN §6 C03): every derivation is detected.
var c03Skeletons = []string{
	"or 1=1", "or 1 = 1", "or 'a'='a'", "or 'a'='a", "or \"a\"=\"a\"", "and 1=1", "or 1 like 1", "or 2>1", "|| 1=1", "or 1=1 or 1=1",
	"union select 1", "union select 1,2,3", "union all select 1", "union select null", "union select 1 from t", "union select user()", "union select @@version", "union distinct select 1",
	"; drop table t", "; exec xp_cmdshell 'x'", "; insert into t values (1)", "; delete from t", "; update t set a=1",
	"and sleep(5)", "or sleep(5)", "and benchmark(1,2)", "and extractvalue(1,2)", "and updatexml(1,2,3)", "or pg_sleep(5)", "and (select 1)", "and 1=(select 1)", "and (select count(*) from t)>0", "and if(1=1,sleep(5),0)", "and ascii(substring(user(),1,1))>64", "and load_file('x')",
	"order by 1", "group by 1", "having 1=1", "limit 1",
	"or (1=1)", "or (1)=(1)", "and (1=1)", "or ('a'='a')", "or (select 1)=1", "and 1 in (1)", "or not 1=2", "or 1 between 0 and 2", "or 1 is not null", "and exists (select 1)",
	"; if(1=1) select 1", "; if (1=1) drop table t",
}

// detected only when the injection closes a parenthesis (prefix ends in ')'): the payload re-opens it
var c03ParenSkeletons = []string{"or (1=1", "and (1=1", "or ('a'='a", "or (1)=(1", "or ((1=1)"}
var c03Prefixes = []string{"1 ", "x' ", "x\" ", "1) ", "x') ", "1"}
var c03Tails = []string{"", " --", " -- x", " #", "/*", "-- ", ";--", "--", "#", " /*", "--\n", "/*!1*/"}
var c03Seps = []string{" ", "\t", "\n", "/**/", "  ", "\x0b", "\x0c", "\r", "\xa0", "\x00", "/*x*/", " /**/ ", "\t\n"}

var c03ParenPrefixes = []string{"1) ", "x') ", "1)", "x')", "1)) ", "x\") "}

// c03Truncations lists the comment-truncation family in the order enumC03 checks it.
func c03Truncations() []string {
	var out []string
	for _, p := range []string{"1", "1 ", "x'", "x' ", "x\"", "x\" ", "1)", "1) ", "x')", "x') "} {
		for _, t := range c03TruncAny {
			out = append(out, p+t)
		}
		if p[0] == '1' {
			for _, t := range c03TruncNumPar {
				out = append(out, p+t)
			}
		}
		if strings.Contains(p, ")") {
			for _, t := range c03TruncNumPar {
				out = append(out, p+t)
			}
			for _, t := range c03TruncPar {
				out = append(out, p+t)
			}
		}
	}
	return out
}

// comment-truncation family: (prefix class, tail) pairs detected
var c03TruncAny = []string{"--", "--\n", "/*", "/*!1*/", "/* x"}
var c03TruncNumPar = []string{"-- x", " -- x"}
var c03TruncPar = []string{"#", "# x"}

func caseAssign(body string, ci int, rng *rand.Rand) string {
	b := []byte(body)
	for i := range b {
		if b[i] >= 'a' && b[i] <= 'z' {
			switch ci {
			case 1:
				b[i] -= 32
			case 2:
				if i%2 == 0 {
					b[i] -= 32
				}
			case 4:
				if i%2 == 1 {
					b[i] -= 32
				}
			case 3:
				if rng.Intn(2) == 0 {
					b[i] -= 32
				}
			}
		}
	}
	return string(b)
}

func oracleC03(c *oracleCfg) *report {
	r := newReport("C03", "exhaustive enumeration of skeleton x prefix x tail x separator x {lower,upper,alternating} on IsSQLi, the comment-truncation table, then random deep derivations (random separator per gap, random case); every derivation is an attack, all are non-trivial")
	enumC03(c, func(in, what string) {
		ok, _, st := li.VerifIsSQLi(in)
		if st != "" || !ok {
			r.fail("not-detected", in, what+" "+st)
		}
		r.eval(in, true)
		r.hist(strings.SplitN(what, "=", 2)[0])
	})
	return r
}

// enumC03 enumerates the canonical SQLi grammar (also used as the correspondence stream g3).
func enumC03(c *oracleCfg, chk func(in, what string)) {
	for _, s := range c.seeds {
		chk(s, "seed")
	}
	for _, sk := range c03Skeletons {
		for _, pr := range c03Prefixes {
			for _, tl := range c03Tails {
				for _, sp := range c03Seps {
					for _, ci := range []int{0, 1, 2, 4} {
						body := caseAssign(strings.ReplaceAll(sk, " ", sp), ci, nil)
						chk(pr+body+tl, "skeleton="+sk)
					}
				}
			}
		}
	}
	// an inline comment of any length is still one separator (bodies at the lengths where a bounded search flips)
	for _, k := range append(append([]int{}, runLengths...), 511, 512, 513, 1023, 1024, 1025, 4095, 4096, 4097) {
		cm := "/*" + strings.Repeat("A", k) + "*/"
		for _, sk := range []string{"or 1=1", "union select 1", "and sleep(5)", "; drop table t"} {
			for _, pr := range []string{"1 ", "x' ", "1) "} {
				chk(pr+strings.ReplaceAll(sk, " ", cm), "long-comment="+sk)
				chk(pr+strings.Replace(sk, " ", cm, 1), "long-comment="+sk)
				chk(strings.TrimSpace(pr)+cm+sk, "long-comment="+sk)
			}
		}
	}
	for _, sk := range c03ParenSkeletons {
		for _, pr := range c03ParenPrefixes {
			for _, tl := range c03Tails {
				for _, sp := range c03Seps {
					for ci := 0; ci < 3; ci++ {
						chk(pr+caseAssign(strings.ReplaceAll(sk, " ", sp), ci, nil)+tl, "paren-skeleton="+sk)
					}
				}
			}
		}
	}
	for _, p := range []string{"1", "1 ", "x'", "x' ", "x\"", "x\" ", "1)", "1) ", "x')", "x') "} {
		for _, t := range c03TruncAny {
			chk(p+t, "truncation")
		}
		if p[0] == '1' {
			for _, t := range c03TruncNumPar {
				chk(p+t, "truncation-num")
			}
		}
		if strings.Contains(p, ")") {
			for _, t := range c03TruncNumPar {
				chk(p+t, "truncation-par")
			}
			for _, t := range c03TruncPar {
				chk(p+t, "truncation-par#")
			}
		}
	}
	// random deep derivations
	rng := rand.New(rand.NewSource(c.seed*31 + 3))
	n := int(20000 * c.scale)
	if c.thorough() {
		n = int(1000000 * c.scale)
	}
	wsBytes := []string{" ", "\t", "\n", "\x0b", "\x0c", "\r", "\xa0", "\x00", "/**/", "/*x*/"}
	for i := 0; i < n; i++ {
		sk := c03Skeletons[rng.Intn(len(c03Skeletons))]
		var sb strings.Builder
		sb.WriteString(c03Prefixes[rng.Intn(len(c03Prefixes))])
		for _, ch := range []byte(sk) {
			if ch == ' ' {
				for k := 1 + rng.Intn(3); k > 0; k-- {
					sb.WriteString(wsBytes[rng.Intn(len(wsBytes))])
				}
			} else {
				sb.WriteByte(ch)
			}
		}
		in := caseAssign(sb.String(), 3, rng) + c03Tails[rng.Intn(len(c03Tails))]
		// the prefix letter x and the quoted literals are part of the derivation; case changes there are harmless
		chk(in, "random skeleton="+sk)
	}
}

// ---- C08 ---------------------------------------------------------------------------------------

func oracleC08(c *oracleCfg) *report {
	r := newReport("C08", "IsSQLi output on every generated SQL input against the five clauses; non-trivial = verdict true")
	kw := liTables().Keywords
	parallel(c.stream("sq"), func(s string) {
		b, fp, st := li.VerifIsSQLi(s)
		if st != "" {
			r.eval(s, false)
			return // totality is C01's business
		}
		if !b {
			if fp != "" {
				r.fail("false-with-fingerprint", s, fp)
			}
			r.eval(s, false)
			return
		}
		if len(fp) < 1 || len(fp) > 5 {
			r.fail("fingerprint-length", s, fp)
		}
		for i := 0; i < len(fp); i++ {
			if strings.IndexByte(classAlphabet, fp[i]) < 0 {
				r.fail("fingerprint-alphabet", s, fp)
			}
			if fp[i] == 'c' && i != len(fp)-1 {
				r.fail("comment-not-last", s, fp)
			}
		}
		up := []byte("0" + fp)
		for i := range up {
			if up[i] >= 'a' && up[i] <= 'z' {
				up[i] -= 32
			}
		}
		if kw[string(up)] != 'F' {
			r.fail("not-in-blacklist", s, fp)
		}
		found := false
		for _, f := range sqlModes {
			fp2, _, _, _, st := li.VerifSQLiFingerprint(s, f)
			if st == "" && fp2 == fp {
				found = true
			}
		}
		if !found {
			r.fail("fingerprint-of-no-context", s, fp)
		}
		r.eval(s, true)
		r.hist("len" + fmt.Sprint(len(fp)))
	})
	return r
}

// ---- C10 ---------------------------------------------------------------------------------------

func asciiLower(s string) string {
	b := []byte(s)
	for i, c := range b {
		if c >= 'A' && c <= 'Z' {
			b[i] = c + 32
		}
	}
	return string(b)
}

func isLetter(c byte) bool { return c >= 'a' && c <= 'z' || c >= 'A' && c <= 'Z' }

// exemptCase marks the positions whose case the property exempts (a sufficient syntactic
// over-approximation): n/N after a backslash; any letter run directly after '$'; if q' / Q' is
// followed by a letter, every occurrence of that letter; every case variant of sp_password.
func exemptCase(s string) []bool {
	ex := make([]bool, len(s))
	low := asciiLower(s)
	for i := 0; i < len(s); i++ {
		if s[i] == '\\' && i+1 < len(s) && (s[i+1] == 'n' || s[i+1] == 'N') {
			ex[i+1] = true
		}
		if s[i] == '$' {
			for j := i + 1; j < len(s) && isLetter(s[j]); j++ {
				ex[j] = true
			}
		}
		if (s[i] == 'q' || s[i] == 'Q') && i+2 < len(s) && s[i+1] == '\'' && isLetter(s[i+2]) {
			d := low[i+2]
			for j := 0; j < len(s); j++ {
				if low[j] == d {
					ex[j] = true
				}
			}
		}
	}
	for i := 0; ; {
		j := strings.Index(low[i:], "sp_password")
		if j < 0 {
			break
		}
		for k := i + j; k < i+j+11; k++ {
			ex[k] = true
		}
		i += j + 1
	}
	return ex
}

func oracleC10(c *oracleCfg) *report {
	r := newReport("C10", "for every generated SQL input: all-upper, all-lower, alternating and random case re-assignments of the non-exempt ASCII letters (exhaustive when <= 10 such letters in the thorough tier) must leave (verdict, fingerprint) unchanged; non-trivial = input has a non-exempt letter and >= 2 tokens")
	parallel(c.stream("sq"), func(s string) {
		b0, f0, st := li.VerifIsSQLi(s)
		if st != "" {
			return
		}
		ex := exemptCase(s)
		var idx []int
		for i := 0; i < len(s); i++ {
			if isLetter(s[i]) && !ex[i] {
				idx = append(idx, i)
			}
		}
		if len(idx) == 0 {
			r.eval(s, false)
			return
		}
		rng := rand.New(rand.NewSource(int64(h64(s)) ^ c.seed))
		try := func(assign func(k int, ch byte) byte) {
			b := []byte(s)
			for k, i := range idx {
				b[i] = assign(k, b[i])
			}
			s2 := string(b)
			if s2 == s {
				return
			}
			b1, f1, st := li.VerifIsSQLi(s2)
			if st != "" || b1 != b0 || f1 != f0 {
				r.fail("case-changes-result", s, fmt.Sprintf("variant %q: (%v,%q) vs (%v,%q) %s", clip(s2), b1, f1, b0, f0, st))
			}
		}
		up := func(ch byte) byte { return ch &^ 0x20 }
		lo := func(ch byte) byte { return ch | 0x20 }
		try(func(k int, ch byte) byte { return up(ch) })
		try(func(k int, ch byte) byte { return lo(ch) })
		try(func(k int, ch byte) byte {
			if k%2 == 0 {
				return up(ch)
			}
			return lo(ch)
		})
		if c.thorough() && len(idx) <= 10 {
			for m := 0; m < 1<<uint(len(idx)); m++ {
				try(func(k int, ch byte) byte {
					if m>>uint(k)&1 == 1 {
						return up(ch)
					}
					return lo(ch)
				})
			}
		} else {
			for t := 0; t < 4; t++ {
				try(func(k int, ch byte) byte {
					if rng.Intn(2) == 0 {
						return up(ch)
					}
					return lo(ch)
				})
			}
			// single flips
			for t := 0; t < 4 && t < len(idx); t++ {
				j := rng.Intn(len(idx))
				try(func(k int, ch byte) byte {
					if k == j {
						return ch ^ 0x20
					}
					return ch
				})
			}
		}
		toks, _, _, _ := li.VerifSQLiTokens(s, 9)
		r.eval(s, len(toks) >= 2)
	})
	return r
}

// ---- C12 ---------------------------------------------------------------------------------------

func oracleC12(c *oracleCfg) *report {
	r := newReport("C12", "for every generated SQL input: IsSQLi against the cascade recomputed from the per-context fingerprint hook (fresh state each), and the quote-shift relation for both quotes and both comment dialects; non-trivial = at least two contexts were tried or some context fires")
	parallel(c.stream("sq"), func(s string) {
		b, fp, st := li.VerifIsSQLi(s)
		if st != "" {
			return
		}
		type pass struct {
			fp      string
			v       bool
			reparse bool
		}
		run := func(f int) pass {
			p, _, v, stt, _ := li.VerifSQLiFingerprint(s, f)
			return pass{p, v, stt.DDX != 0 || stt.Hash != 0}
		}
		wantB, wantF := false, ""
		tried := 0
		if len(s) > 0 {
			func() {
				a := run(1 | 8)
				tried++
				if a.v {
					wantB, wantF = true, a.fp
					return
				}
				if a.reparse {
					m := run(1 | 16)
					tried++
					if m.v {
						wantB, wantF = true, m.fp
						return
					}
				}
				if strings.IndexByte(s, '\'') >= 0 {
					q := run(2 | 8)
					tried++
					if q.v {
						wantB, wantF = true, q.fp
						return
					}
					if q.reparse {
						m := run(2 | 16)
						tried++
						if m.v {
							wantB, wantF = true, m.fp
							return
						}
					}
				}
				if strings.IndexByte(s, '"') >= 0 {
					d := run(4 | 16)
					tried++
					if d.v {
						wantB, wantF = true, d.fp
						return
					}
				}
			}()
		}
		if b != wantB || fp != wantF {
			r.fail("cascade", s, fmt.Sprintf("IsSQLi=(%v,%q) cascade=(%v,%q)", b, fp, wantB, wantF))
		}
		if s != "" {
			for _, q := range []struct {
				ch string
				fl int
			}{{"'", 2}, {"\"", 4}} {
				for _, d := range []int{8, 16} {
					fp1, _, v1, _, st1 := li.VerifSQLiFingerprint(s, q.fl|d)
					fp2, _, v2, _, st2 := li.VerifSQLiFingerprint(q.ch+s, 1|d)
					if st1 != "" || st2 != "" {
						continue
					}
					if fp1 != fp2 {
						r.fail("shift-fingerprint", s, fmt.Sprintf("quote=%s dialect=%d inside=%q prefixed=%q", q.ch, d, fp1, fp2))
					} else if v1 != v2 && fp1 != "sos" && fp1 != "s&s" {
						r.fail("shift-verdict", s, fmt.Sprintf("quote=%s dialect=%d fp=%q inside=%v prefixed=%v", q.ch, d, fp1, v1, v2))
					}
				}
			}
		}
		r.eval(s, tried >= 2 || b)
		r.hist(fmt.Sprintf("contexts-tried-%d", tried))
	})
	return r
}

// ---- C14 ---------------------------------------------------------------------------------------

func keywordComponents() map[string]bool {
	comp := map[string]bool{}
	for k := range liTables().Keywords {
		for _, w := range strings.FieldsFunc(k, func(r rune) bool { return !(r == '_' || r >= '0' && r <= '9' || r >= 'A' && r <= 'Z') }) {
			comp[w] = true
		}
		comp[k] = true
	}
	return comp
}

func oracleC14(c *oracleCfg) *report {
	r := newReport("C14", "random members of the benign grammar (words not a component of any key, unsigned integers, single spaces; e-mail, decimal, exponent-number and sentence shapes; comma enumerations at every run length and padded to the usual buffer sizes) and all 1-2 letter words; IsSQLi must be (false,\"\"); non-trivial = at least two words")
	enumC14(c, func(fam, s string, nt bool) {
		// priming: attacks that share a long prefix / suffix with the benign input are asked first, so
		// that a verdict which depends on earlier calls (a cache keyed on part of the input) shows up
		li.IsSQLi(s + " union select 1,2 from t --")
		li.IsSQLi("1 union select " + s)
		if i := strings.IndexByte(s, ' '); i > 0 {
			li.IsSQLi(s[:i] + " union select 1,2 from t --")
		}
		ok, fp, st := li.VerifIsSQLi(s)
		if st != "" || ok || fp != "" {
			r.fail("benign-reported-"+fam, s, fmt.Sprintf("(%v,%q) %s", ok, fp, st))
		}
		r.eval(s, nt)
		r.hist(fam)
	})
	return r
}

// words that appear as string literals in the detection code (markers, function names, phrases): a rule that
// fires on the raw text of such a word, outside the fingerprint table, would make it a false positive
var c14Literals = []string{"sp_password", "SP_PASSWORD", "Sp_Password", "sp_passwordx", "xsp_password", "password", "outfile", "dumpfile", "collate_x", "x_collate",
	"javascript", "script", "onerror", "xp_cmdshell", "information_schema", "load_file", "benchmark_x", "sleep_x", "waitfor_x", "pg_sleep_x"}

// keywords whose near-misses the benign grammar contains: an index keyed on part of the bytes, a stripped suffix or
// a lenient comparison in the word look-up would turn a plain word into a keyword
var c14Keywords = []string{"select", "union", "insert", "update", "delete", "drop", "or", "and", "not", "like", "in", "is", "null", "limit", "having", "order", "group",
	"by", "from", "where", "into", "values", "exec", "case", "when", "then", "else", "end", "sleep", "benchmark", "if", "user", "database", "version", "char", "concat",
	"between", "exists", "all", "distinct", "as", "join", "on", "table", "set", "div", "mod", "xor", "regexp", "rlike", "sounds", "collate", "binary", "varchar", "int"}

// derivedWords: near-misses of a keyword that are still plain identifiers
func derivedWords(k string) []string {
	var out []string
	for _, suf := range []string{"2", "4", "8", "16", "32", "64", "128", "256", "1", "0", "_", "_x", "x", "s", "ed"} {
		out = append(out, k+suf)
	}
	out = append(out, "x"+k, "_"+k, k+k)
	for i := 0; i < len(k); i++ {
		c := k[i]
		if d := c & 0x1f; d <= 9 && i > 0 { // the digit that shares the low five bits with the letter
			out = append(out, k[:i]+string([]byte{'0' + d})+k[i+1:])
		}
		if d := c & 0x0f; d <= 9 && i > 0 {
			out = append(out, k[:i]+string([]byte{'0' + d})+k[i+1:])
		}
		out = append(out, k[:i]+"_"+k[i:])
		if i > 0 {
			out = append(out, k[:i]+k[i+1:]) // one letter dropped
			out = append(out, k[:i]+string([]byte{c, c})+k[i+1:])
		}
	}
	return out
}

// enumC14 enumerates the benign grammar (also the correspondence stream g14).
func enumC14(c *oracleCfg, chk func(fam, s string, nt bool)) {
	comp := keywordComponents()
	rng := rand.New(rand.NewSource(c.seed*17 + 5))
	letters := "abcdefghijklmnopqrstuvwxyzABCDEFGHIJKLMNOPQRSTUVWXYZ_"
	word := func() string {
		for {
			n := 1 + rng.Intn(10)
			if rng.Intn(20) == 0 {
				n = 30 + rng.Intn(10)
			}
			b := make([]byte, n)
			b[0] = letters[rng.Intn(len(letters))]
			for i := 1; i < n; i++ {
				if rng.Intn(5) == 0 {
					b[i] = byte('0' + rng.Intn(10))
				} else {
					b[i] = letters[rng.Intn(len(letters))]
				}
			}
			w := string(b)
			if !comp[strings.ToUpper(w)] {
				return w
			}
		}
	}
	num := func() string {
		n := 1 + rng.Intn(6)
		b := make([]byte, n)
		for i := range b {
			b[i] = byte('0' + rng.Intn(10))
		}
		return string(b)
	}
	n := int(40000 * c.scale)
	if c.thorough() {
		n = int(700000 * c.scale)
	}
	for i := 0; i < n; i++ {
		k := 1 + rng.Intn(8)
		parts := make([]string, k)
		for j := range parts {
			if rng.Intn(3) == 0 {
				parts[j] = num()
			} else {
				parts[j] = word()
			}
		}
		if rng.Intn(10) == 0 { // a long leading token (longer than any fixed-size window)
			if rng.Intn(2) == 0 {
				parts[0] = strings.Repeat(num(), 12)
			} else {
				for len(parts[0]) < 64 {
					parts[0] += word()
				}
				if comp[strings.ToUpper(parts[0])] {
					parts[0] += "_x"
				}
			}
		}
		chk("core", strings.Join(parts, " "), k >= 2)
		if i < len(c14Literals)*4 { // words the code itself compares input text with, if they are not key components
			w := c14Literals[i%len(c14Literals)]
			if !comp[strings.ToUpper(w)] {
				chk("literal", w, true)
				chk("literal", parts[0]+" "+w, true)
				chk("literal", "7 "+w+" 7", true)
				chk("literal", w+" "+strings.Join(parts, " "), true)
			}
		}
		if i < len(c14Keywords) { // words derived from table keys that are not themselves (components of) keys
			kwd := c14Keywords[i]
			for _, w := range derivedWords(kwd) {
				if comp[strings.ToUpper(w)] {
					continue
				}
				chk("derived", "1 "+w+" 1", true)
				chk("derived", w+" 1", true)
				chk("derived", "x "+w+" y", true)
				chk("derived", "1 "+w+" 1 "+w+" 1", true)
			}
		}
		chk("email", word()+"@"+word()+"."+word(), true)
		chk("email2", word()+"."+word()+"@"+word()+"."+word(), true)
		chk("decimal", num()+"."+num(), true)
		chk("scientific", word()+" "+num()+[]string{"e", "E"}[rng.Intn(2)]+[]string{"", "+", "-"}[rng.Intn(3)]+num()+" "+word(), true)
		chk("sentence", word()+", "+word()+" "+word()+".", true)
		chk("sentence2", word()+" "+word()+"! "+word()+"?", true)
		chk("sentence3", word()+" "+word()+": "+word()+" "+num()+".", true)
	}
	// enumerations: the only way a benign text is read past the first five tokens is a comma list (`x , y` drops two
	// tokens per round), so limits on tokens read / bytes scanned show only here. Lists of every run length, and lists
	// padded so that a word derived from a keyword straddles the usual sizes.
	// (the list-based model is quadratic in the number of tokens: 8 kB of list cost it 1.5 s, 16 kB 6 s — sizes are chosen accordingly)
	maxRun, sizes := 2049, []int{1024, 2048, 4096, 8192}
	if c.thorough() {
		maxRun, sizes = 4097, append(sizes, 16384)
	}
	for _, k := range []int{2, 3, 5, 8, 16, 31, 32, 33, 64, 127, 128, 129, 255, 256, 257, 511, 512, 513, 1023, 1024, 1025, 2047, 2048, 2049, 4095, 4096, 4097} {
		if k > maxRun {
			continue
		}
		chk("enumeration", "1"+strings.Repeat(", 1", k), true)
		chk("enumeration", "a"+strings.Repeat(", b", k), true)
		if k <= 1025 {
			chk("enumeration", "apples"+strings.Repeat(", 12 pears", k)+".", true)
		}
	}
	for _, size := range sizes {
		for _, w := range []string{"unions", "selected", "exceptional"} {
			if comp[strings.ToUpper(w)] {
				continue
			}
			for _, head := range []string{"11", "ab"} {
				for d := -len(w) - 1; d <= 1; d++ { // the word slides across the boundary
					n := (size + d - len(head) - 1) / 3
					if n < 1 {
						continue
					}
					pad := size + d - len(head) - 1 - 3*n // 0..2 extra bytes
					chk("enumeration", head+strings.Repeat("1", pad)+strings.Repeat(", 1", n)+" "+w, true)
				}
			}
		}
	}
	// long identifiers at every position: words longer than the 32-byte token window whose tail (from
	// byte 31, 32 or 33 on) spells a keyword, after leading tokens of various lengths
	kwTails := []string{"select", "union", "like", "or", "and", "case", "not", "from", "where", "in", "is", "null", "sleep", "exec", "having"}
	for _, lead := range []string{"", "7", strings.Repeat("7", 20), strings.Repeat("7", 42), strings.Repeat("a", 33), strings.Repeat("a", 70), "a " + strings.Repeat("b", 40)} {
		for _, padLen := range []int{25, 30, 31, 32, 33, 34, 40, 63, 64, 65} {
			for i, t1 := range kwTails {
				for j, t2 := range kwTails {
					if (padLen < 31 || padLen > 33) && j != (i*7+3)%len(kwTails) {
						continue // all pairs only around the window size
					}
					w1 := strings.Repeat("x", padLen) + t1
					w2 := strings.Repeat("y", padLen) + t2
					if comp[strings.ToUpper(w1)] || comp[strings.ToUpper(w2)] {
						continue
					}
					parts := []string{w1, w2}
					if lead != "" {
						parts = []string{lead, w1, w2}
					}
					chk("longword", strings.Join(parts, " "), true)
					chk("longword", strings.Join(append(parts, "1"), " "), true)
				}
			}
		}
	}
	for _, a := range letters {
		for _, b := range " " + letters {
			w := strings.TrimSpace(string([]rune{a, b}))
			if comp[strings.ToUpper(w)] {
				continue
			}
			chk("short", w, false)
			chk("short", w+" "+w, true)
			chk("short", "1 "+w, true)
			chk("short", w+" 1", true)
		}
	}
}

// ---- C16 ---------------------------------------------------------------------------------------

func oracleC16(c *oracleCfg) *report {
	r := newReport("C16", "token-stream invariants on every generated SQL input in the six modes; non-trivial = at least two tokens as-is")
	check := func(s string) {
		nt := false
		for _, f := range sqlModes {
			toks, _, end, st := li.VerifSQLiTokens(s, f)
			if st == "RUNAWAY" {
				r.fail("no-progress", s, fmt.Sprintf("flags=%d", f))
				continue
			}
			if st != "" {
				continue
			}
			if f == 9 && len(toks) >= 2 {
				nt = true
			}
			if len(toks) > len(s) {
				r.fail("token-count", s, fmt.Sprintf("flags=%d %d tokens", f, len(toks)))
			}
			if len(s) > 0 && end != len(s) {
				r.fail("scan-end", s, fmt.Sprintf("flags=%d end=%d len=%d", f, end, len(s)))
			}
			last := 0
			prevAfter := 0
			for i, t := range toks {
				d := fmt.Sprintf("flags=%d token %d %+v", f, i, t)
				if t.Len > 31 || t.Len != len(t.Val) || t.Len < 0 {
					r.fail("len", s, d)
				}
				if t.Pos < 0 || t.Pos+t.Len > len(s) || s[t.Pos:t.Pos+t.Len] != t.Val {
					r.fail("value-not-input-slice", s, d)
				}
				if t.Before > t.Pos || t.Pos+t.Len > t.After {
					r.fail("outside-scan-span", s, d)
				}
				if t.After <= t.Before {
					r.fail("no-progress", s, d)
				}
				if t.Before < prevAfter {
					r.fail("scan-order", s, d)
				}
				if t.Pos < last {
					r.fail("order", s, d)
				}
				if strings.IndexByte(classAlphabet, t.Cat) < 0 {
					r.fail("class", s, d)
				}
				last = t.Pos + t.Len
				prevAfter = t.After
			}
		}
		r.eval(s, nt)
	}
	parallel(c.stream("sq"), check)
	// inputs longer than any fixed buffer or 16-bit length (the model side of the correspondence stops at 64 kB;
	// the invariants are checked on the implementation alone): the scan must still end at |s|
	sizes := []int{70000, 140000}
	if c.thorough() {
		sizes = []int{70000, 140000, 1<<20 + 7, 5 << 20}
	}
	for _, n := range sizes {
		for _, u := range []string{"a ", "1 ", " ", "a", "1", "'a' ", "a,", "1+", "(", "-- \n", "/**/", "`a` ", "@a ", "x=1 or ", "1 union select ", "$1 ", "a.b "} {
			check(strings.Repeat(u, n/len(u)+1))
			check(strings.Repeat(" ", n) + "1 union select 2")
			check(strings.Repeat(u, n/len(u)+1) + "'x")
		}
	}
	return r
}

// ---- C18 ---------------------------------------------------------------------------------------

// closeQuote: the first-real-terminator oracle: offset of the first delimiter that is neither
// preceded by an odd number of backslashes nor immediately followed by the same delimiter.
func closeQuote(t string, d byte) int {
	i := 0
	bs := 0
	for i < len(t) {
		ch := t[i]
		if ch == d {
			if bs%2 == 1 {
				bs = 0
				i++
				continue
			}
			if i+1 < len(t) && t[i+1] == d {
				bs = 0
				i += 2
				continue
			}
			return i
		}
		if ch == '\\' {
			bs++
		} else {
			bs = 0
		}
		i++
	}
	return -1
}

func qClose(b byte) byte {
	switch b {
	case '(':
		return ')'
	case '[':
		return ']'
	case '{':
		return '}'
	case '<':
		return '>'
	}
	return b
}

func min(a, b int) int {
	if a < b {
		return a
	}
	return b
}

func oracleC18(c *oracleCfg) *report {
	r := newReport("C18", "first-closing-quote oracle vs the first token, for every text over {d,\\\\,a,space,other quote} to a bound and random longer ones with tail duplication, in each opening mode; q-strings for all 223 delimiter bytes x bodies; dollar strings for 4 tags x bodies; non-trivial = text contains the delimiter")
	// quoted strings
	check := func(text string, d byte) {
		q := closeQuote(text, d)
		wantLen, wantClose, wantResume := len(text), byte(0), len(text)
		if q >= 0 {
			wantLen, wantClose, wantResume = q, d, q+1
		}
		type mode struct {
			name   string
			input  string
			flags  int
			off    int // offset of the content in input
			open   byte
			closeB byte
			cat    byte
		}
		ds := string([]byte{d})
		modes := []mode{{"real", ds + text, 9, 1, d, wantClose, 's'}}
		if d == '\'' {
			modes = append(modes,
				mode{"virtual", text, 2 | 8, 0, 0, wantClose, 's'},
				mode{"n-prefixed", "n'" + text, 9, 2, d, wantClose, 's'},
				mode{"e-prefixed", "E'" + text, 9, 2, d, wantClose, 's'},
				mode{"u&-prefixed", "u&'" + text, 9, 3, 'u', map[bool]byte{true: 'u', false: 0}[q >= 0], 's'},
				mode{"@var", "@'" + text, 9, 2, d, wantClose, 'v'})
		}
		if d == '"' {
			modes = append(modes, mode{"virtual", text, 4 | 16, 0, 0, wantClose, 's'}, mode{"@var", "@\"" + text, 9, 2, d, wantClose, 'v'})
		}
		if d == '`' {
			modes[0].cat = 0 // bareword or function, decided by the keyword table
			modes = append(modes, mode{"@var", "@`" + text, 9, 2, d, wantClose, 'v'})
		}
		for _, m := range modes {
			if text == "" && (m.name == "virtual" || m.name == "n-prefixed" || m.name == "e-prefixed") {
				continue // the empty input has no tokens; n' and E' alone are words
			}
			toks, _, _, st := li.VerifSQLiTokens(m.input, m.flags)
			if st != "" {
				continue
			}
			if len(toks) == 0 {
				r.fail("no-token", m.input, m.name)
				continue
			}
			t := toks[0]
			okCat := t.Cat == m.cat || (m.cat == 0 && (t.Cat == 'n' || t.Cat == 'f'))
			if !okCat || t.Pos != m.off || t.Len != min(wantLen, 31) || t.Close != m.closeB || t.Open != m.open || t.After != m.off+wantResume {
				r.fail("string-end", m.input, fmt.Sprintf("mode=%s delimiter=%q got %+v want pos=%d len=%d close=%d resume=%d", m.name, d, t, m.off, min(wantLen, 31), m.closeB, m.off+wantResume))
			}
		}
		r.eval(ds+text, strings.IndexByte(text, d) >= 0)
	}
	bound := 6
	if c.thorough() {
		bound = 7
	}
	for _, d := range []byte{'\'', '"', '`'} {
		other := byte('"')
		if d == '"' {
			other = '\''
		}
		exhaustive("", []byte{d, '\\', 'a', ' ', other}, bound, func(t string) { check(t, d) })
	}
	// runs of escapes / delimiters before a delimiter, at the lengths where a bounded counter could flip
	for _, d := range []byte{'\'', '"', '`'} {
		ds := string([]byte{d})
		for _, k := range runLengths {
			bs := strings.Repeat("\\", k)
			dd := strings.Repeat(ds, k)
			for _, t := range []string{bs + ds + "x" + ds + "1", "a" + bs + ds + "x" + ds, bs + ds, bs, dd + "x", dd, "a" + dd + "x" + ds,
				bs + dd + "x" + ds, "a" + bs + dd, dd + bs + ds + "x"} {
				check(t, d)
			}
		}
	}
	rng := rand.New(rand.NewSource(c.seed*13 + 1))
	n := int(60000 * c.scale)
	if c.thorough() {
		n = int(1500000 * c.scale)
	}
	for i := 0; i < n; i++ {
		d := []byte{'\'', '"', '`'}[rng.Intn(3)]
		al := []byte{d, d, '\\', '\\', 'a', ' ', 'b', '-'}
		m := 1 + rng.Intn(40)
		b := make([]byte, m)
		for j := range b {
			b[j] = al[rng.Intn(len(al))]
		}
		t := string(b)
		if rng.Intn(2) == 0 {
			k := rng.Intn(len(t))
			t += t[k:]
		}
		check(t, d)
	}
	// q-strings: all 223 delimiter bytes
	qb := 3
	if c.thorough() {
		qb = 4
	}
	for d := 33; d < 256; d++ {
		b := byte(d)
		cl := qClose(b)
		exhaustive("", []byte{b, cl, '\'', 'a', ' '}, qb, func(body string) {
			for _, pre := range []string{"q'", "Q'", "nq'", "Nq'"} {
				s := pre + string([]byte{b}) + body
				toks, _, _, st := li.VerifSQLiTokens(s, 9)
				if st != "" {
					continue
				}
				want := strings.Index(body, string([]byte{cl, '\''}))
				off := len(pre) + 1
				if len(toks) == 0 {
					r.fail("q-no-token", s, "")
					continue
				}
				t := toks[0]
				if want < 0 {
					if t.Cat != 's' || t.Pos != off || t.Close != 0 || t.Open != 'q' || t.After != len(s) || t.Len != min(len(body), 31) {
						r.fail("q-string-end", s, fmt.Sprintf("unterminated: got %+v", t))
					}
				} else if t.Cat != 's' || t.Pos != off || t.Close != 'q' || t.Open != 'q' || t.After != off+want+2 || t.Len != min(want, 31) {
					r.fail("q-string-end", s, fmt.Sprintf("want content len %d resume %d: got %+v", want, off+want+2, t))
				}
				r.eval(s, want >= 0)
			}
		})
	}
	// dollar strings
	db := 5
	if c.thorough() {
		db = 6
	}
	dollarCheck := func(tag string, bound int) {
		open := "$" + tag + "$"
		exhaustive("", []byte("$ab' B"), bound, func(body string) {
			s := open + body
			toks, _, _, st := li.VerifSQLiTokens(s, 9)
			if st != "" {
				return
			}
			want := strings.Index(body, open)
			if len(toks) == 0 {
				r.fail("dollar-no-token", s, "")
				return
			}
			t := toks[0]
			if want < 0 {
				if t.Cat != 's' || t.Pos != len(open) || t.Close != 0 || t.Open != '$' || t.After != len(s) || t.Len != min(len(body), 31) {
					r.fail("dollar-string-end", s, fmt.Sprintf("unterminated: got %+v", t))
				}
			} else if t.Cat != 's' || t.Pos != len(open) || t.Close != '$' || t.Open != '$' || t.After != len(open)+want+len(open) || t.Len != min(want, 31) {
				r.fail("dollar-string-end", s, fmt.Sprintf("want content len %d: got %+v", want, t))
			}
			r.eval(s, want >= 0)
		})
		// the body closed by its own tag, a decoy that differs in the last letter, and no closer at all
		for _, body := range []string{"x" + open, "x$" + tag + "y" + open + "1", "x", "x$" + tag, " or 1=1" + open + " or 1=1"} {
			s := open + body
			toks, _, _, st := li.VerifSQLiTokens(s, 9)
			if st != "" || len(toks) == 0 {
				if st == "" {
					r.fail("dollar-no-token", s, "")
				}
				continue
			}
			want := strings.Index(body, open)
			t := toks[0]
			if want < 0 {
				if t.Cat != 's' || t.Pos != len(open) || t.Close != 0 || t.Open != '$' || t.After != len(s) {
					r.fail("dollar-string-end", s, fmt.Sprintf("unterminated: got %+v", t))
				}
			} else if t.Cat != 's' || t.Pos != len(open) || t.Close != '$' || t.Open != '$' || t.After != len(open)+want+len(open) || t.Len != min(want, 31) {
				r.fail("dollar-string-end", s, fmt.Sprintf("want content len %d: got %+v", want, t))
			}
			r.eval(s, want >= 0)
		}
	}
	for _, tag := range []string{"", "a", "ab", "B"} {
		dollarCheck(tag, db)
	}
	for _, k := range runLengths { // tags of every length around the token-size and power-of-two boundaries
		dollarCheck(strings.Repeat("a", k), 1)
		dollarCheck(strings.Repeat("a", k)+"Z", 1)
	}
	return r
}
