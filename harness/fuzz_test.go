//go:build verif

package main

// Coverage-guided differential fuzzing of the real package against the compiled Lean model (G5 of DESIGN §3.2).
// Each fuzz worker process keeps one `vdriver` child; every input is expanded into the operations of its stream,
// the implementation's observation is computed in-process, the model's observation is read from the driver,
// and the first disagreement fails the run (Go minimises it and prints the input). Run by `vcheck` in the
// thorough tier of C06/C07; the driver path comes from VDRIVER.

import (
	"bufio"
	"io"
	"os"
	"os/exec"
	"strings"
	"sync"
	"testing"
)

type driverProc struct {
	in  io.WriteCloser
	out *bufio.Reader
}

var (
	drvOnce sync.Once
	drv     *driverProc
	drvMu   sync.Mutex
)

func getDriver(t testing.TB) *driverProc {
	drvOnce.Do(func() {
		path := os.Getenv("VDRIVER")
		if path == "" {
			return
		}
		cmd := exec.Command(path)
		in, err := cmd.StdinPipe()
		if err != nil {
			return
		}
		out, err := cmd.StdoutPipe()
		if err != nil {
			return
		}
		if cmd.Start() != nil {
			return
		}
		drv = &driverProc{in: in, out: bufio.NewReaderSize(out, 1<<20)}
	})
	if drv == nil {
		t.Skip("VDRIVER not set or driver did not start")
	}
	return drv
}

// modelAnswers sends the operations to the driver and returns its answers, one per operation.
func modelAnswers(d *driverProc, ops []Op) ([]string, error) {
	drvMu.Lock()
	defer drvMu.Unlock()
	var b strings.Builder
	for _, o := range ops {
		b.WriteString(o.Line())
		b.WriteByte('\n')
	}
	b.WriteString("flush\n")
	if _, err := io.WriteString(d.in, b.String()); err != nil {
		return nil, err
	}
	res := make([]string, len(ops))
	for i := range ops {
		line, err := d.out.ReadString('\n')
		if err != nil {
			return nil, err
		}
		res[i] = strings.TrimRight(line, "\n")
	}
	return res, nil
}

func fuzzCompare(t *testing.T, stream string, opsSet string, s string) {
	if len(s) > 512 {
		return
	}
	d := getDriver(t)
	c := &genCfg{stream: stream, ops: map[string]bool{}}
	for _, k := range strings.Split(opsSet, ",") {
		c.ops[k] = true
	}
	ops := c.opsFor(s, nil)
	want, err := modelAnswers(d, ops)
	if err != nil {
		t.Skipf("driver: %v", err)
	}
	for i, o := range ops {
		got := o.evalRaw()
		if got != want[i] {
			t.Fatalf("DISAGREE op=%s\nimpl =%s\nmodel=%s", o.Line(), got, want[i])
		}
	}
}

// the full corpus as seeds costs ~12 s of baseline coverage: only in the thorough tier (VFUZZ_SEEDS=full)
func fullSeeds() bool { return os.Getenv("VFUZZ_SEEDS") == "full" }

func FuzzSQL(f *testing.F) {
	if fullSeeds() {
		for _, s := range corpus("sqli") {
			f.Add(s)
		}
	} else {
		for _, s := range repoFixtures("test-sqli") {
			f.Add(s)
		}
	}
	for _, s := range sqlSweepSeeds {
		f.Add(s)
	}
	for _, s := range sqlFrag {
		f.Add(s)
	}
	f.Fuzz(func(t *testing.T, s string) { fuzzCompare(t, "sq", "tok,fp,is", s) })
}

func FuzzHTML(f *testing.F) {
	if fullSeeds() {
		for _, s := range corpus("xss") {
			f.Add(s)
		}
	}
	for _, s := range xssSeeds {
		f.Add(s)
	}
	for _, s := range htmlSweepSeeds {
		f.Add(s)
	}
	for _, s := range htmlFrag {
		f.Add(s)
	}
	f.Fuzz(func(t *testing.T, s string) { fuzzCompare(t, "hx", "h5,xc,x", s) })
}

func FuzzXSSUnit(f *testing.F) {
	for _, s := range unitSweepSeeds {
		f.Add(s)
	}
	f.Fuzz(func(t *testing.T, s string) { fuzzCompare(t, "xu", "dec,url,tag,attr,esw", s) })
}
