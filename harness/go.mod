module vharness

go 1.17

require github.com/corazawaf/libinjection-go v0.0.0

replace github.com/corazawaf/libinjection-go => /repo
