package main

import (
	"fmt"
	"math/rand"
	"runtime/debug"
	"strings"
	"time"

	li "github.com/corazawaf/libinjection-go"
)

func init() {
	oracles["C02"] = oracleC02
	oracles["C04"] = oracleC04
	oracles["C11"] = oracleC11
	oracles["C13"] = oracleC13
	oracles["C15"] = oracleC15
	oracles["C17"] = oracleC17
	oracles["C19"] = oracleC19
}

// ---- C02 ---------------------------------------------------------------------------------------

func oracleC02(c *oracleCfg) *report {
	r := newReport("C02", "every generated HTML input through the tokenizer and isXSS in the five contexts and IsXSS; non-trivial = at least two tokens in the data state; plus long repetitions of every byte and byte pair of the alphabet (stack limited to 64 MB)")
	debug.SetMaxStack(64 << 20)
	parallel(c.stream("hx"), func(s string) {
		nt := false
		for ctx := 0; ctx < 5; ctx++ {
			toks, st := li.VerifH5Tokens(s, ctx)
			if st != "" {
				r.fail("tokenizer-"+st, s, fmt.Sprintf("ctx=%d", ctx))
			}
			if ctx == 0 && len(toks) >= 2 {
				nt = true
			}
			if _, st := li.VerifIsXSSCtx(s, ctx); st != "" {
				r.fail("isXSS-"+st, s, fmt.Sprintf("ctx=%d", ctx))
			}
		}
		if _, st := li.VerifIsXSS(s); st != "" {
			r.fail("IsXSS-"+st, s, "")
		}
		r.eval(s, nt)
	})
	// long inputs: every byte, pair and triple (triples over the structural bytes in the quick tier)
	// repeated; the goroutine stack is limited so that recursion per input byte is fatal quickly
	var units []string
	for _, a := range htmlAlpha {
		units = append(units, string([]byte{a}))
		for _, b := range htmlAlpha {
			if a != b {
				units = append(units, string([]byte{a, b}))
			}
		}
	}
	units = append(units, "<a ", "<a b=", "<a b='c'", "<a/", "</a>", "<!--", "-->", "<![CDATA[", "]]>", "<%", "%>", "&#", "&#x1;", "<a b=c ", "/ ", " /", "a=", "='", "<?", "<!")
	tri := htmlStruct
	if c.thorough() {
		tri = htmlAlpha
	}
	for _, a := range tri {
		for _, b := range tri {
			for _, d := range tri {
				if a != b || b != d {
					units = append(units, string([]byte{a, b, d}))
				}
			}
		}
	}
	size := 256 << 10
	debug.SetMaxStack(8 << 20)
	if c.thorough() {
		size = 1 << 20
		debug.SetMaxStack(32 << 20)
	}
	ev := newEvaluator()
	run := func(s string) {
		fmt.Fprintf(progress, "LONG unit=%q len=%d\n", clip(s[:min(len(s), 8)]), len(s))
		ev.beginLimit(s, 60*time.Second)
		t0 := time.Now()
		if _, st := li.VerifIsXSS(s); st != "" {
			r.fail("IsXSS-long-"+st, s, fmt.Sprintf("len=%d", len(s)))
		}
		ev.end()
		if d := time.Since(t0); d > 30*time.Second {
			r.fail("IsXSS-long-slow", s, fmt.Sprintf("len=%d took %v", len(s), d))
		}
		r.eval(s, true)
		r.hist(fmt.Sprintf("long-%dkB", len(s)>>10))
	}
	longInputs(units, []int{size}, run)
	// a short prefix followed by a long run of one byte: recursion per byte of a run that only one entry state reaches
	for _, pre := range []string{"<", "</", "<!", "<?", "<%", "<a", "<a ", "<a/", "<a b", "<a b=", "<a b='", "<a b=c", "<!--", "<![CDATA[", "<a b='c'", "x", "'", "=", "/"} {
		for _, b := range htmlAlpha {
			run(pre + strings.Repeat(string([]byte{b}), size))
		}
	}
	if c.thorough() { // the repository's own TestMemory scale for single bytes and pairs
		debug.SetMaxStack(64 << 20)
		longInputs(units[:len(htmlAlpha)*len(htmlAlpha)], []int{10 << 20}, run)
	}
	return r
}

// ---- C04 ---------------------------------------------------------------------------------------

var c04Prefixes = []string{"", "x>", "x'>", "x\">", "x`>", ">", "'>", "\">", "`>", "x >", "foo"}

func c04Cases(s string) []string {
	lo := strings.ToLower(s)
	alt := []byte(lo)
	for i := range alt {
		if i%2 == 0 && alt[i] >= 'a' && alt[i] <= 'z' {
			alt[i] -= 32
		}
	}
	nul := lo[:1] + "\x00" + lo[1:]
	return []string{lo, strings.ToUpper(lo), string(alt), nul}
}

func oracleC04(c *oracleCfg) *report {
	r := newReport("C04", "exhaustive enumeration of black tags x spellings x endings, events x spellings x separators x value forms, URL attributes x spellings x scheme spellings x quotings, style/filter, black attributes, markup forms, each behind 11 breakout prefixes, plus events injected directly into each attribute context; then random obfuscations (encodings of scheme bytes, NUL at random name positions, random case, random separators); every vector must be reported; all are non-trivial")
	enumC04(c, func(fam, in string) {
		ok, st := li.VerifIsXSS(in)
		if st != "" || !ok {
			r.fail("not-detected-"+fam, in, st)
		}
		r.eval(in, true)
		r.hist(fam)
	})
	return r
}

// enumC04 enumerates the canonical XSS vector grammar (also the correspondence stream g4).
func enumC04(c *oracleCfg, chk func(fam, in string)) {
	for _, s := range c.seeds {
		chk("seed", s)
	}
	t := liTables()
	var urlAttrs []string
	for _, b := range t.Blacks {
		if b.Type == 2 {
			urlAttrs = append(urlAttrs, b.Name)
		}
	}
	evSeps := []string{" ", "\t", "\n", "/", "\x0c", "\r"}
	evVals := []string{"=x", "=\"x\"", "='x'", "=`x`", " = x", "=x>"}
	schemesEnc := []string{"javascript:", "JaVaScRiPt:", "vbscript:", "data:", "view-source:", "&#106;avascript:", "&#x6A;avascript:", " \tjavascript:", "java\nscript:", "jav\x00ascript:"}
	prefixes := c04Prefixes
	quickEvents := t.BlackEvents
	for pi, p := range prefixes {
		for _, tg := range t.BlackTags {
			for _, cs := range c04Cases(tg) {
				chk("tag", p+"<"+cs+">")
				chk("tag", p+"<"+cs+" x")
				chk("tag", p+"<"+cs+"/")
				chk("tag", p+"<"+cs)
			}
		}
		for ei, e := range quickEvents {
			// quick tier: every event behind every prefix in one rotating (spelling, separator, value) combination
			// plus the full product behind the first prefix; thorough: full product everywhere
			for ci, cs := range c04Cases("on" + e.Name) {
				for si, sep := range evSeps {
					for vi, v := range evVals {
						if !c.thorough() && pi != 0 && (ci+si+vi+ei+pi)%24 != 0 {
							continue
						}
						chk("event", p+"<x"+sep+cs+v)
					}
				}
			}
		}
		for _, a := range urlAttrs {
			for _, cs := range c04Cases(a) {
				for _, sch := range schemesEnc {
					for _, q := range []string{"", "\"", "'", "`"} {
						chk("url", p+"<a "+cs+"="+q+sch+"x"+q+">")
					}
				}
			}
		}
		for _, a := range []string{"style", "filter", "STYLE", "st\x00yle"} {
			chk("style", p+"<x "+a+"=x>")
		}
		for _, v := range []string{"<!DOCTYPE html>", "<!doctype x", "<!ENTITY x>", "<!entity", "<!--[if IE]>", "<?import x>", "<?IMPORT", "<?xml x>", "<?XML x", "<!--`-->", "<%`%>"} {
			chk("markup", p+v)
		}
		for _, a := range []string{"xmlns", "xlink", "XMLNS", "datasrc", "dataformatas"} {
			chk("blackattr", p+"<x "+a+"=x>")
		}
	}
	for _, p := range []string{"x ", "x' ", "x\" ", "x` ", "", " "} {
		for _, e := range t.BlackEvents {
			chk("ctx-event", p+"on"+strings.ToLower(e.Name)+"=x")
		}
	}
	// a quote as the very first byte, immediately followed by the attribute (the quote closes the value the input
	// was injected into; no separator, no second quote): `"onerror=x`, `'style=x`, `` `href=javascript:x ``
	for _, q := range []string{"\"", "'", "`"} {
		for _, e := range t.BlackEvents {
			chk("quote0", q+"on"+strings.ToLower(e.Name)+"=x")
		}
		for _, v := range []string{"style=x", "href=javascript:x", "onerror=alert(1)", "ONLOAD=x", "xmlns=x", "onerror=x>", "/onerror=x", " onerror=x"} {
			chk("quote0", q+v)
			chk("quote0", q+v+" y")
		}
	}
	// character references padded with leading zeros (browsers ignore any number of them), with and without ';'
	for _, a := range []string{"href", "src", "action"} {
		for z := 0; z <= 16; z++ {
			zs := strings.Repeat("0", z)
			for ri, ref := range []string{"&#" + zs + "106", "&#x" + zs + "6a", "&#X" + zs + "6A"} {
				refA := []string{"&#" + zs + "97", "&#x" + zs + "61", "&#X" + zs + "61"}[ri]
				chk("zero-pad", "<a "+a+"=\""+ref+";avascript:x\">")
				chk("zero-pad", "<a "+a+"="+ref+";avascript:x>")
				chk("zero-pad", "<a "+a+"='jav"+refA+";script:x'>")
				chk("zero-pad", "<a "+a+"='jav"+refA+"script:x'>") // no ';': the next byte `s` ends the number in both bases
			}
		}
	}
	// separator runs: every pair of HTML white-space bytes (and `/`) between the tag and the attribute,
	// and white space on either side of `=`, for an event handler, `style` and a script URL
	ws := []string{" ", "\t", "\n", "\x0c", "\r"}
	var runs []string
	for _, a := range append(append([]string{}, ws...), "/") {
		for _, b := range ws {
			runs = append(runs, a+b)
		}
	}
	for _, a := range ws {
		runs = append(runs, a+a+a, "/"+a+"/"+a)
	}
	for _, run := range runs {
		for _, p := range []string{"<x", "x", "x'", "x\"", "x`", "<svg"} {
			chk("sep-run", p+run+"onerror=alert(1)")
			chk("sep-run", p+run+"style=x")
			chk("sep-run", p+run+"href=javascript:alert(1)")
		}
	}
	for _, a := range ws {
		for _, b := range append([]string{""}, ws...) {
			for _, q := range []string{"", "'", "\""} {
				chk("eq-ws", "<a href"+a+"="+b+q+"javascript:alert(1)"+q+">")
				chk("eq-ws", "<a href"+b+"="+a+q+"javascript:alert(1)"+q+">")
				chk("eq-ws", "<x onload"+a+"="+b+q+"x"+q+">")
				chk("eq-ws", "x onload"+b+"="+a+q+"x"+q)
			}
		}
	}
	// random obfuscations
	rng := rand.New(rand.NewSource(c.seed*101 + 9))
	n := int(30000 * c.scale)
	if c.thorough() {
		n = int(1000000 * c.scale)
	}
	randCaseNul := func(name string) string {
		b := []byte(strings.ToLower(name))
		var out []byte
		for i, ch := range b {
			if ch >= 'a' && ch <= 'z' && rng.Intn(2) == 0 {
				ch -= 32
			}
			out = append(out, ch)
			if i < len(b)-1 && rng.Intn(6) == 0 {
				out = append(out, 0)
			}
		}
		return string(out)
	}
	seps := []string{" ", "\t", "\n", "\x0c", "\r", "/", "  ", " /", "\n\t"}
	for i := 0; i < n; i++ {
		p := prefixes[rng.Intn(len(prefixes))]
		switch rng.Intn(3) {
		case 0:
			tg := t.BlackTags[rng.Intn(len(t.BlackTags))]
			chk("rnd-tag", p+"<"+randCaseNul(tg)+[]string{">", " ", "/", "", "\t x=y>", "\n"}[rng.Intn(6)])
		case 1:
			e := t.BlackEvents[rng.Intn(len(t.BlackEvents))]
			chk("rnd-event", p+"<x"+seps[rng.Intn(len(seps))]+randCaseNul("on"+e.Name)+evVals[rng.Intn(len(evVals))])
		case 2:
			a := urlAttrs[rng.Intn(len(urlAttrs))]
			q := []string{"", "\"", "'", "`"}[rng.Intn(4)]
			val := encodeSchemeStrict(rng, []string{"javascript:", "vbscript:", "data:", "view-source:"}[rng.Intn(4)])
			if q == "" && strings.ContainsAny(val, " \t\n\x0c\r>") {
				q = "\""
			}
			if strings.Contains(val, q) && q != "" {
				continue
			}
			chk("rnd-url", p+"<a"+seps[rng.Intn(len(seps))]+randCaseNul(a)+"="+q+val+q+">")
		}
	}
}

// encodeSchemeStrict: an encoding of scheme that satisfies the property's side conditions (a
// reference without ';' is followed by a byte that cannot continue it), with leading junk and NUL/LF.
func encodeSchemeStrict(rng *rand.Rand, sch string) string {
	var sb strings.Builder
	for k := rng.Intn(3); k > 0; k-- {
		sb.WriteByte([]byte{1, 9, 10, 32, 0x7f, 0x80, 0xff, 0}[rng.Intn(8)])
	}
	prev := ""
	for k := 0; k < len(sch); k++ {
		junk := ""
		if rng.Intn(6) == 0 {
			junk = string([]byte{0, 10}[rng.Intn(2)])
		}
		var e string
		for {
			e = encByte(rng, sch[k])
			nxt := (junk + e)[0]
			isDig := nxt >= '0' && nxt <= '9'
			isHex := isDig || (nxt >= 'a' && nxt <= 'f') || (nxt >= 'A' && nxt <= 'F')
			if strings.HasPrefix(prev, "&#") && !strings.HasSuffix(prev, ";") {
				if strings.HasPrefix(prev, "&#x") || strings.HasPrefix(prev, "&#X") {
					if isHex {
						continue
					}
				} else if isDig {
					continue
				}
			}
			break
		}
		sb.WriteString(junk)
		sb.WriteString(e)
		prev = e
	}
	if strings.HasPrefix(prev, "&#") && !strings.HasSuffix(prev, ";") {
		sb.WriteString("(")
	} else {
		sb.WriteString("alert(1)")
	}
	return sb.String()
}

func encByte(rng *rand.Rand, c byte) string {
	switch rng.Intn(7) {
	case 0:
		return string([]byte{c})
	case 1:
		return fmt.Sprintf("&#%d;", c)
	case 2:
		return fmt.Sprintf("&#%d", c)
	case 3:
		return fmt.Sprintf("&#%s%d;", strings.Repeat("0", rng.Intn(5)), c)
	case 4:
		return fmt.Sprintf("&#x%x;", c)
	case 5:
		return fmt.Sprintf("&#X%X", c)
	default:
		if c >= 'a' && c <= 'z' && rng.Intn(2) == 0 {
			return string([]byte{c - 32})
		}
		return string([]byte{c})
	}
}

// ---- C11 ---------------------------------------------------------------------------------------

func oracleC11(c *oracleCfg) *report {
	r := newReport("C11", "for every generated HTML input without a case variant of [CDATA[: upper, lower, alternating and random case re-assignments must keep IsXSS; for every context and every position strictly inside a tag-name or attribute-name token: inserting NUL must keep that context's verdict; non-trivial = input has a letter and a name token")
	checkCase := func(s string) {
		x0, st := li.VerifIsXSS(s)
		if st != "" {
			return
		}
		hasLetter := false
		for i := 0; i < len(s); i++ {
			if isLetter(s[i]) {
				hasLetter = true
				break
			}
		}
		if hasLetter && !strings.Contains(asciiLower(s), "[cdata[") {
			rng := rand.New(rand.NewSource(int64(h64(s)) ^ c.seed))
			for v := 0; v < 6; v++ {
				b := []byte(s)
				for i, ch := range b {
					if !isLetter(ch) {
						continue
					}
					switch v {
					case 0:
						b[i] = ch &^ 0x20
					case 1:
						b[i] = ch | 0x20
					case 2:
						if i%2 == 0 {
							b[i] = ch ^ 0x20
						}
					default:
						if rng.Intn(2) == 0 {
							b[i] = ch ^ 0x20
						}
					}
				}
				s2 := string(b)
				if s2 == s {
					continue
				}
				x1, st := li.VerifIsXSS(s2)
				if st != "" || x1 != x0 {
					r.fail("case-changes-verdict", s, fmt.Sprintf("variant %q: %v vs %v %s", clip(s2), x1, x0, st))
				}
			}
		}
	}
	// vectors whose verdict hinges on a character reference (the `x` of `&#x..;` and the hex digits
	// are letters too): each scheme, each position, hex and decimal, in URL attributes
	{
		rng := rand.New(rand.NewSource(c.seed*61 + 9))
		for _, sc := range []string{"javascript:", "vbscript:", "data:", "view-source:"} {
			for pos := 0; pos < len(sc); pos++ {
				for _, enc := range []string{fmt.Sprintf("&#x%x;", sc[pos]), fmt.Sprintf("&#x%x", sc[pos]), fmt.Sprintf("&#%d;", sc[pos]), fmt.Sprintf("&#x00%x;", sc[pos])} {
					u := sc[:pos] + enc + sc[pos+1:] + "alert(1)"
					for _, w := range []string{"<a href=\"" + u + "\">", "<img src=" + u + ">", "x\" formaction=\"" + u, "<form action='" + u + "'>"} {
						checkCase(w)
						r.eval(w, true)
					}
				}
			}
			k := 150
			if c.thorough() {
				k = 3000
			}
			for i := 0; i < k; i++ {
				u := encodeSchemeStrict(rng, sc) + "x"
				w := "<a href=\"" + u + "\">"
				checkCase(w)
				r.eval(w, true)
			}
		}
	}
	parallel(c.stream("hx"), func(s string) {
		checkCase(s)
		names := 0
		for ctx := 0; ctx < 5; ctx++ {
			toks, st := li.VerifH5Tokens(s, ctx)
			if st != "" {
				continue
			}
			v0, st := li.VerifIsXSSCtx(s, ctx)
			if st != "" {
				continue
			}
			for _, t := range toks {
				if t.Type != 1 && t.Type != 6 { // TagNameOpen, AttrName
					continue
				}
				names++
				for p := t.Off + 1; p < t.Off+t.Len; p++ {
					s2 := s[:p] + "\x00" + s[p:]
					v1, st := li.VerifIsXSSCtx(s2, ctx)
					if st != "" || v1 != v0 {
						r.fail("nul-in-name-changes-verdict", s, fmt.Sprintf("ctx=%d token=%+v position=%d: %v vs %v %s", ctx, t, p, v1, v0, st))
					}
				}
			}
		}
		r.eval(s, strings.IndexFunc(s, func(c rune) bool { return c < 128 && isLetter(byte(c)) }) >= 0 && names > 0)
	})
	return r
}

// ---- C13 ---------------------------------------------------------------------------------------

var embedCtx = []string{"", "<a ", "<a b='", "<a b=\"", "<a b=`"}

func oracleC13(c *oracleCfg) *report {
	r := newReport("C13", "for every generated HTML input: IsXSS = OR of the five context verdicts; each attribute-context verdict = data-state verdict of the input embedded in a harmless tag; prepending '<'-free text keeps the data-state verdict; non-trivial = some context fires")
	var pre []string
	rng := rand.New(rand.NewSource(c.seed*23 + 11))
	for i := 0; i < 64; i++ {
		pre = append(pre, strings.ReplaceAll(fragGen(rng, htmlFrag, htmlAlpha, 5), "<", ""))
	}
	pre = append(pre, "x", "'", "\"", "`", ">", "a=b ", "onclick=x ", "-->", "]]>", " ", "x>", "/", "&#60;")
	parallel(c.stream("hx"), func(s string) {
		x, st := li.VerifIsXSS(s)
		if st != "" {
			return
		}
		or := false
		var v [5]bool
		for ctx := 0; ctx < 5; ctx++ {
			v[ctx], st = li.VerifIsXSSCtx(s, ctx)
			if st != "" {
				return
			}
			or = or || v[ctx]
		}
		if or != x {
			r.fail("not-the-disjunction", s, fmt.Sprintf("IsXSS=%v contexts=%v", x, v))
		}
		for ctx := 1; ctx < 5; ctx++ {
			e, st := li.VerifIsXSSCtx(embedCtx[ctx]+s, 0)
			if st == "" && e != v[ctx] {
				r.fail("embedding", s, fmt.Sprintf("ctx=%d verdict=%v embedded %q verdict=%v", ctx, v[ctx], embedCtx[ctx], e))
			}
		}
		k := int(h64(s) % uint64(len(pre)))
		for j := 0; j < 3; j++ {
			t := pre[(k+j*7)%len(pre)]
			p, st := li.VerifIsXSSCtx(t+s, 0)
			if st == "" && p != v[0] {
				r.fail("prefix-hides-or-creates", s, fmt.Sprintf("prefix %q: %v vs %v", t, p, v[0]))
			}
		}
		r.eval(s, or)
	})
	// late vectors: the verdict must not depend on how many tokens precede the vector (a token or
	// byte budget in the loop makes the shift and embedding clauses fail only on long inputs)
	sizes := []int{}
	top := 12
	if c.thorough() {
		top = 16
	}
	for k := 4; k <= top; k++ {
		sizes = append(sizes, 1<<k-1, 1<<k, 1<<k+1)
	}
	type lateFam struct {
		ctx        int
		head, unit string
		vec        string
	}
	fams := []lateFam{
		{0, "", "<b>", "<script>alert(1)</script>"},
		{0, "", "<b c=d>", "<p onclick=x>"},
		{0, "", "a ", "<svg/onload=1>"},
		{1, "", "x=1 ", "onerror=alert(1)"},
		{2, "' ", "x=1 ", "y onerror=alert(1)"},
		{3, "\" ", "x=1 ", "y onerror=alert(1)"},
		{4, "` ", "x=1 ", "y onerror=alert(1)"},
	}
	for _, n := range sizes {
		for _, f := range fams {
			s := f.head + strings.Repeat(f.unit, n) + f.vec
			v, st := li.VerifIsXSSCtx(s, f.ctx)
			if st != "" {
				continue
			}
			if f.ctx == 0 {
				for _, t := range []string{"x", "xy ", "'"} {
					p, st := li.VerifIsXSSCtx(t+s, 0)
					if st == "" && p != v {
						r.fail("prefix-hides-or-creates", s, fmt.Sprintf("late vector after %d units: prefix %q: %v vs %v", n, t, p, v))
					}
				}
			} else {
				e, st := li.VerifIsXSSCtx(embedCtx[f.ctx]+s, 0)
				if st == "" && e != v {
					r.fail("embedding", s, fmt.Sprintf("late vector after %d units: ctx=%d verdict=%v embedded verdict=%v", n, f.ctx, v, e))
				}
			}
			x, st := li.VerifIsXSS(s)
			if st == "" && v && !x {
				r.fail("not-the-disjunction", s, fmt.Sprintf("late vector after %d units: ctx=%d fires, IsXSS=false", n, f.ctx))
			}
			r.eval(s, v)
		}
	}
	return r
}

// ---- C15 ---------------------------------------------------------------------------------------

func oracleC15(c *oracleCfg) *report {
	r := newReport("C15", "every generated HTML input with '<' and '=' removed (and exhaustive strings over the alphabet minus the two bytes): IsXSS and every context must be false; non-trivial = input contains a quote, '>', '/', '&' or the letters of an event/scheme name")
	parallel(genC15(c), func(s string) {
		if strings.ContainsAny(s, "<=") {
			return
		}
		x, st := li.VerifIsXSS(s)
		if st == "" && x {
			r.fail("reported", s, "IsXSS true without '<' and '='")
		}
		for ctx := 0; ctx < 5; ctx++ {
			v, st := li.VerifIsXSSCtx(s, ctx)
			if st == "" && v {
				r.fail("reported-ctx", s, fmt.Sprintf("ctx=%d", ctx))
			}
		}
		r.eval(s, strings.ContainsAny(s, "'\"`>/&") || strings.Contains(asciiLower(s), "on"))
	})
	return r
}

// genC15: inputs without '<' and '=' (also the correspondence stream g15).
func genC15(c *oracleCfg) func(emit func(string)) {
	alpha := []byte{}
	for _, b := range htmlAlpha {
		if b != '<' && b != '=' {
			alpha = append(alpha, b)
		}
	}
	return func(emit func(string)) {
		strip := func(s string) string { return strings.NewReplacer("<", "", "=", "").Replace(s) }
		c.stream("hx")(func(s string) { emit(strip(s)) })
		if c.thorough() {
			exhaustive("", alpha, 6, emit)
		} else {
			exhaustive("", alpha, 4, emit)
		}
		// bytes that become '<' or '=' under a 7-bit mask, a case fold or an off-by-one comparison, next to black names:
		// a tokenizer that confuses one of them with '<' / '=' emits a tag or a value the input does not contain
		twins := []string{"\xbc", "\xbd", "\x1c", "\x1d", ";", ">", "\x7d", "\x5d", "\xbe", "\xa0", "\x85"}
		twins = append(twins, unicodeTwins('<')...)
		twins = append(twins, unicodeTwins('=')...)
		for _, tw := range twins {
			for _, w := range []string{"onerror", "onclick", "style", "href", "src", "xmlns"} {
				for _, v := range []string{"x", "javascript:x", "alert(1)", "1"} {
					for _, p := range []string{"", "x ", "x' ", "x\" ", "x` "} {
						emit(p + w + tw + v)
						emit(p + w + " " + tw + v)
						emit(p + w + " " + tw + " " + v)
						emit(p + w + tw + "'" + v + "'")
					}
				}
			}
			for _, t := range []string{"script", "iframe", "svg", "style", "img src" + tw + "x onerror" + tw + "x"} {
				emit(tw + t + ">")
				emit("x" + tw + t + " ")
				emit(tw + "/" + t + ">")
			}
		}
		for _, w := range []string{"onclick", "javascript:", "style", "xmlns", "href", "&#60;script&#62;", "on", "'onclick", "\"onclick", "`onclick", " onerror x", "x' onerror 'y", "script>", "/script", "!doctype", "!--", "?xml", "%"} {
			exhaustive(w, alpha, 2, emit)
			for _, p := range []string{"", " ", "x ", "x' ", "x\" ", "x` ", ">", "/"} {
				emit(p + w)
				emit(p + w + ">")
				emit(p + w + " x")
			}
		}
	}
}

// ---- C17 ---------------------------------------------------------------------------------------

// term: first-terminator reference: (token length, resume offset relative to the body, or -1)
func term(kind string, b string) (int, int) {
	switch kind {
	case "gt":
		if i := strings.IndexByte(b, '>'); i >= 0 {
			return i, i + 1
		}
	case "pct":
		if i := strings.Index(b, "%>"); i >= 0 {
			return i, i + 2
		}
	case "cdata":
		if i := strings.Index(b, "]]>"); i >= 0 {
			return i, i + 3
		}
	case "comment":
		for i := 0; i < len(b); i++ {
			if b[i] != '-' {
				continue
			}
			j := i + 1
			for j < len(b) && b[j] == 0 {
				j++
			}
			if j < len(b) && (b[j] == '-' || b[j] == '!') && j+1 < len(b) && b[j+1] == '>' {
				return i, j + 2
			}
		}
	}
	return len(b), -1
}

func oracleC17(c *oracleCfg) *report {
	r := newReport("C17", "bounds/order/count of the token stream for every generated HTML input in the five contexts; first-terminator oracle for opener x body over {- ! > NUL a ] % < \" '} to a bound and decoy-rich random bodies, incl. quoted attribute values; non-trivial = at least two tokens / body contains a terminator byte")
	parallel(c.stream("hx"), func(s string) {
		nt := false
		for ctx := 0; ctx < 5; ctx++ {
			toks, st := li.VerifH5Tokens(s, ctx)
			if st == "RUNAWAY" {
				r.fail("token-count", s, fmt.Sprintf("ctx=%d more than 2|s|+4 tokens", ctx))
				continue
			}
			if st != "" {
				continue
			}
			if ctx == 0 && len(toks) >= 2 {
				nt = true
			}
			if len(toks) > len(s)+1 {
				r.fail("token-count", s, fmt.Sprintf("ctx=%d %d tokens", ctx, len(toks)))
			}
			last := 0
			for i, t := range toks {
				if t.Off < 0 || t.Len < 0 || t.Off+t.Len > len(s) {
					r.fail("outside-input", s, fmt.Sprintf("ctx=%d token %d %+v", ctx, i, t))
				}
				if t.Off < last {
					r.fail("order", s, fmt.Sprintf("ctx=%d token %d %+v after end %d", ctx, i, t, last))
				}
				last = t.Off + t.Len
				// a DOCTYPE token ends at the first `>`: it never contains one, whatever else (quotes included) it contains
				if t.Type == 9 && t.Off >= 0 && t.Off+t.Len <= len(s) && strings.IndexByte(s[t.Off:t.Off+t.Len], '>') >= 0 {
					r.fail("first-terminator", s, fmt.Sprintf("ctx=%d DOCTYPE token %+v contains '>'", ctx, t))
				}
			}
		}
		r.eval(s, nt)
	})
	openers := []struct {
		o, kind string
		ty      int
		off     int
	}{{"<!", "gt", 8, 2}, {"<?", "gt", 8, 2}, {"<%", "pct", 8, 2}, {"<![CDATA[", "cdata", 0, 9}, {"<!--", "comment", 8, 4}, {"<!doctype", "gt", 9, 2}, {"<!DOCTYPE", "gt", 9, 2}, {"</!", "gt", 8, 2}}
	checkBody := func(op struct {
		o, kind string
		ty      int
		off     int
	}, body string) {
		if op.o == "<!" && (strings.HasPrefix(body, "--") || strings.HasPrefix(asciiLower(body), "doctype") || strings.HasPrefix(body, "[CDATA[")) {
			return
		}
		s := op.o + body
		toks, st := li.VerifH5Tokens(s, 0)
		if st != "" {
			return
		}
		// the token starts after the opener; for doctype and "</!" the token includes part of the opener text
		tb := s[op.off:]
		l, res := term(op.kind, tb)
		if op.kind == "cdata" || op.kind == "comment" || op.kind == "pct" || op.o == "<!" || op.o == "<?" {
			l, res = term(op.kind, body)
		}
		if len(toks) == 0 || toks[0].Type != op.ty || toks[0].Off != op.off || toks[0].Len != l {
			r.fail("first-terminator", s, fmt.Sprintf("opener %q: tokens %v want type=%d off=%d len=%d", op.o, toks, op.ty, op.off, l))
		} else if res >= 0 {
			resume := op.off + res
			// tokenizing resumes right after the terminator: the rest is tokenized as fresh data-state input
			rest, st2 := li.VerifH5Tokens(s[resume:], 0)
			if st2 == "" {
				if len(rest) != len(toks)-1 {
					r.fail("resume", s, fmt.Sprintf("opener %q resume=%d: tokens %v, rest alone %v", op.o, resume, toks, rest))
				} else {
					for i, t := range rest {
						u := toks[i+1]
						if u.Type != t.Type || u.Len != t.Len || u.Off != t.Off+resume {
							r.fail("resume", s, fmt.Sprintf("opener %q resume=%d: tokens %v, rest alone %v", op.o, resume, toks, rest))
							break
						}
					}
				}
			}
		} else if len(toks) != 1 {
			r.fail("unterminated-runs-to-end", s, fmt.Sprintf("tokens %v", toks))
		}
		r.eval(s, strings.ContainsAny(body, ">]%-"))
	}
	bound := 5
	if c.thorough() {
		bound = 6
	}
	for _, op := range openers {
		exhaustive("", []byte("-!>\x00a]%<\"'"), bound, func(body string) { checkBody(op, body) })
	}
	rng := rand.New(rand.NewSource(c.seed*41 + 2))
	n := int(40000 * c.scale)
	if c.thorough() {
		n = int(1000000 * c.scale)
	}
	decoys := []string{"-", "--", "-!", "->", "-\x00", "-\x00-", "-\x00\x00!>", "-->", "-!>", "]", "]]", "]>", "]]>", "]]]>", "%", "%%", "%>", ">", "a", "<", "\x00", "!", "- ->", "--!>"}
	for i := 0; i < n; i++ {
		var sb strings.Builder
		for k := rng.Intn(10); k > 0; k-- {
			sb.WriteString(decoys[rng.Intn(len(decoys))])
		}
		checkBody(openers[rng.Intn(len(openers))], sb.String())
	}
	// quoted attribute values end at the matching quote
	for _, q := range []byte{'\'', '"', '`'} {
		exhaustive("", []byte{q, '>', ' ', 'a', '\'', '"'}, bound-1, func(body string) {
			for _, form := range []struct {
				s   string
				ctx int
				off int
			}{{"<a b=" + string([]byte{q}) + body, 0, 6}, {body, map[byte]int{'\'': 2, '"': 3, '`': 4}[q], 0}} {
				toks, st := li.VerifH5Tokens(form.s, form.ctx)
				if st != "" {
					continue
				}
				want := strings.IndexByte(body, q)
				wl := want
				if want < 0 {
					wl = len(body)
				}
				var vt *li.VerifH5Tok
				for i := range toks {
					if toks[i].Type == 7 {
						vt = &toks[i]
						break
					}
				}
				if vt == nil || vt.Off != form.off || vt.Len != wl {
					r.fail("quoted-value-end", form.s, fmt.Sprintf("ctx=%d quote=%q tokens %v want off=%d len=%d", form.ctx, q, toks, form.off, wl))
				}
				r.eval(form.s, want >= 0)
			}
		})
	}
	return r
}

// ---- C19 ---------------------------------------------------------------------------------------

// refDecode: the reference value of the character reference at the start of s.
func refDecode(s string) (int, int) {
	if len(s) == 0 {
		return -1, 0
	}
	if s[0] != '&' || len(s) < 2 {
		return int(s[0]), 1
	}
	if s[1] != '#' || len(s) < 3 {
		return '&', 1
	}
	digit := func(ch byte, hex bool) int {
		switch {
		case ch >= '0' && ch <= '9':
			return int(ch - '0')
		case hex && ch >= 'a' && ch <= 'f':
			return int(ch-'a') + 10
		case hex && ch >= 'A' && ch <= 'F':
			return int(ch-'A') + 10
		}
		return -1
	}
	hex := s[2] == 'x' || s[2] == 'X'
	i := 2
	base := 10
	if hex {
		i = 3
		base = 16
	}
	if i >= len(s) || digit(s[i], hex) < 0 {
		return '&', 1
	}
	val := 0
	for i < len(s) {
		if s[i] == ';' {
			return val, i + 1
		}
		d := digit(s[i], hex)
		if d < 0 {
			return val, i
		}
		val = val*base + d
		if val > 0x1000FF {
			return '&', 1
		}
		i++
	}
	return val, i
}

func oracleC19(c *oracleCfg) *report {
	r := newReport("C19", "random and enumerated encodings of the four schemes (literal either case, decimal/hex references with/without ';', leading zeros, either case of x, leading junk, NUL/LF between units) on isBlackURL and on IsXSS for every URL attribute; decoder bounds and value against a reference decoder on enumerated and random inputs; non-trivial = at least one scheme byte is encoded as a reference")
	t := liTables()
	var urlAttrs []string
	for _, b := range t.Blacks {
		if b.Type == 2 {
			urlAttrs = append(urlAttrs, b.Name)
		}
	}
	rng := rand.New(rand.NewSource(c.seed*59 + 4))
	sch := []string{"javascript:", "vbscript:", "data:", "view-source:"}
	// enumerated: each scheme, each single position under each encoding form, each junk prefix
	forms := []func(c byte) string{
		func(c byte) string { return string([]byte{c}) },
		func(c byte) string { return string([]byte{c &^ 0x20}) },
		func(c byte) string { return fmt.Sprintf("&#%d;", c) },
		func(c byte) string { return fmt.Sprintf("&#%d;", c&^0x20) },
		func(c byte) string { return fmt.Sprintf("&#0000%d;", c) },
		func(c byte) string { return fmt.Sprintf("&#x%x;", c) },
		func(c byte) string { return fmt.Sprintf("&#X%X;", c) },
		func(c byte) string { return fmt.Sprintf("&#x00%x;", c) },
	}
	chkURL := func(v string, nt bool) {
		ok, st := li.VerifIsBlackURL(v)
		if st != "" || !ok {
			r.fail("scheme-not-recognised", v, st)
		}
		r.eval(v, nt)
	}
	for _, s := range sch {
		for pos := 0; pos < len(s); pos++ {
			for fi, f := range forms {
				if !isLetter(s[pos]) && (fi == 1 || fi == 3) {
					continue
				}
				for _, junk := range []string{"", " ", "\x01", "\t\n", "\x7f", "\xe9\x80"} {
					for _, mid := range []string{"", "\x00", "\n"} {
						v := junk + s[:pos] + mid + f(s[pos]) + mid + s[pos+1:] + "x"
						chkURL(v, fi >= 2)
					}
				}
			}
		}
		// all positions encoded with the same form
		for fi, f := range forms {
			var sb strings.Builder
			for i := 0; i < len(s); i++ {
				if !isLetter(s[i]) && (fi == 1 || fi == 3) {
					sb.WriteByte(s[i])
				} else {
					sb.WriteString(f(s[i]))
				}
			}
			chkURL(sb.String()+"alert(1)", fi >= 2)
		}
	}
	n := int(60000 * c.scale)
	if c.thorough() {
		n = int(1500000 * c.scale)
	}
	for i := 0; i < n; i++ {
		v := encodeSchemeStrict(rng, sch[rng.Intn(4)])
		chkURL(v, strings.Contains(v, "&#"))
		if i%8 == 0 {
			a := urlAttrs[rng.Intn(len(urlAttrs))]
			if !strings.ContainsAny(v, "\"") {
				in := "<a " + strings.ToLower(a) + "=\"" + v + "\">"
				ok, st := li.VerifIsXSS(in)
				if st != "" || !ok {
					r.fail("encoded-scheme-in-attribute-not-detected", in, st)
				}
				r.eval(in, true)
			}
		}
	}
	// decoder
	chkDec := func(s string) {
		v, cns, st := li.VerifHTMLDecode(s)
		if st != "" {
			r.fail("decoder-"+st, s, "")
			return
		}
		if len(s) == 0 {
			if cns != 0 || v != -1 {
				r.fail("decoder-empty", s, fmt.Sprintf("(%d,%d)", v, cns))
			}
			return
		}
		if cns < 1 || cns > len(s) {
			r.fail("decoder-consumed", s, fmt.Sprintf("(%d,%d)", v, cns))
		}
		wv, wc := refDecode(s)
		if v != wv || cns != wc {
			r.fail("decoder-value", s, fmt.Sprintf("got (%d,%d) reference (%d,%d)", v, cns, wv, wc))
		}
		r.eval(s, strings.HasPrefix(s, "&#"))
	}
	db := 5
	if c.thorough() {
		db = 6
	}
	exhaustive("", []byte("&#xX;09aFg"), db, chkDec)
	for _, pre := range []string{"&#", "&#x", "&#X", "&#10", "&#x10", "&#1114", "&#x1000F", "&#0000000000", "&#x0000000000"} {
		exhaustive(pre, []byte("09fF;g&"), 3, chkDec)
	}
	al := []byte("&#xX;09aAfFgG \x00")
	for i := 0; i < n; i++ {
		m := rng.Intn(14)
		b := make([]byte, m)
		for j := range b {
			b[j] = al[rng.Intn(len(al))]
		}
		chkDec(string(b))
	}
	return r
}
