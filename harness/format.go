package main

// Canonical observation strings: exactly what Main.lean prints for the same operation.

import (
	"encoding/hex"
	"fmt"
	"os"
	"strconv"
	"strings"
	"sync"
	"sync/atomic"
	"time"

	li "github.com/corazawaf/libinjection-go"
)

func hx(s string) string {
	if s == "" {
		return "-"
	}
	return hex.EncodeToString([]byte(s))
}

func fmtTok(b *strings.Builder, t *li.VerifTok) {
	b.WriteString(strconv.Itoa(int(t.Cat)))
	b.WriteByte(',')
	b.WriteString(strconv.Itoa(t.Pos))
	b.WriteByte(',')
	b.WriteString(strconv.Itoa(t.Len))
	b.WriteByte(',')
	b.WriteString(hex.EncodeToString([]byte(t.Val)))
	b.WriteByte(',')
	b.WriteString(strconv.Itoa(int(t.Open)))
	b.WriteByte(',')
	b.WriteString(strconv.Itoa(int(t.Close)))
	b.WriteByte(',')
	b.WriteString(strconv.Itoa(t.Count))
}

func obsTok(s string, flags int) string {
	toks, st, end, status := li.VerifSQLiTokens(s, flags)
	if status != "" {
		return status
	}
	var b strings.Builder
	for i := range toks {
		fmtTok(&b, &toks[i])
		fmt.Fprintf(&b, ",%d,%d;", toks[i].Before, toks[i].After)
	}
	fmt.Fprintf(&b, "S %d %d %d %d", st.Tokens, st.DDX, st.Hash, end)
	return b.String()
}

func obsFp(s string, flags int) string {
	toks, _, status := li.VerifSQLiFold(s, flags)
	if status != "" {
		return status
	}
	fp, black, verdict, st, status := li.VerifSQLiFingerprint(s, flags)
	if status != "" {
		return status
	}
	var b strings.Builder
	for i := range toks {
		if i > 0 {
			b.WriteByte(';')
		}
		fmtTok(&b, &toks[i])
	}
	fmt.Fprintf(&b, "|%s|%v|%v|%d %d %d %d", hex.EncodeToString([]byte(fp)), black, verdict, st.Tokens, st.Folds, st.DDX, st.Hash)
	return b.String()
}

func obsIs(s string) string {
	r, fp, status := li.VerifIsSQLi(s)
	if status != "" {
		return status
	}
	return fmt.Sprintf("%v %s", r, hex.EncodeToString([]byte(fp)))
}

func obsStrCore(s string, offset int, d byte) string {
	if offset > len(s) {
		return "ERR slice"
	}
	t, next, status := li.VerifParseStringCore(s, 0, offset, d)
	if status != "" {
		return status
	}
	var b strings.Builder
	fmtTok(&b, &t)
	fmt.Fprintf(&b, ",%d", next)
	return b.String()
}

func obsH5(s string, ctx int) string {
	toks, status := li.VerifH5Tokens(s, ctx)
	if status != "" {
		return status
	}
	var b strings.Builder
	for i, t := range toks {
		if i > 0 {
			b.WriteByte(';')
		}
		fmt.Fprintf(&b, "%d,%d,%d", t.Type, t.Off, t.Len)
	}
	return b.String()
}

func obsBool(r bool, status string) string {
	if status != "" {
		return status
	}
	if r {
		return "true"
	}
	return "false"
}

func obsDec(s string) string {
	v, c, status := li.VerifHTMLDecode(s)
	if status != "" {
		return status
	}
	return fmt.Sprintf("%d %d", v, c)
}

func obsAttr(s string) string {
	r, status := li.VerifIsBlackAttr(s)
	if status != "" {
		return status
	}
	return strconv.Itoa(r)
}

// An Op is one line of the protocol.
type Op struct {
	Kind string // tok fp is strcore h5 xc x dec url tag attr esw
	A    int    // flags / ctx / offset
	B    int    // delimiter (strcore)
	S    string // input
	S2   string // second string (esw: the needle)
}

func (o Op) Line() string {
	switch o.Kind {
	case "tok", "fp", "h5", "xc":
		return o.Kind + " " + strconv.Itoa(o.A) + " " + hx(o.S)
	case "strcore":
		return fmt.Sprintf("strcore %d %d %s", o.A, o.B, hx(o.S))
	case "esw":
		return "esw " + hx(o.S2) + " " + hx(o.S)
	default:
		return o.Kind + " " + hx(o.S)
	}
}

func (o Op) evalRaw() string {
	switch o.Kind {
	case "tok":
		return obsTok(o.S, o.A)
	case "fp":
		return obsFp(o.S, o.A)
	case "is":
		return obsIs(o.S)
	case "c03l":
		return obsC03List(o.S)
	case "strcore":
		return obsStrCore(o.S, o.A, byte(o.B))
	case "h5":
		return obsH5(o.S, o.A)
	case "xc":
		return obsBool(li.VerifIsXSSCtx(o.S, o.A))
	case "x":
		return obsBool(li.VerifIsXSS(o.S))
	case "dec":
		return obsDec(o.S)
	case "url":
		return obsBool(li.VerifIsBlackURL(o.S))
	case "tag":
		return obsBool(li.VerifIsBlackTag(o.S))
	case "attr":
		return obsAttr(o.S)
	case "esw":
		return obsBool(li.VerifHTMLEncodeStartsWith(o.S2, o.S))
	}
	return "BAD-OP"
}

// guarded evaluation: operations are evaluated inline; a watchdog goroutine watches the start
// time of every worker's current operation. A call that does not return within callLimit makes the
// whole process print "STUCK <op line>" and exit with status 3 (the orchestrator turns that into
// a replay: the implementation does not terminate on that input).
type evaluator struct {
	start int64 // unix nanos of the running op, 0 when idle
	limit int64 // nanos allowed for the running op
	line  atomic.Value
}

// progress receives a line before every long-running input so that a crash of the whole process
// (stack overflow, fatal runtime error) can be attributed to an input.
var progress = os.Stderr

const callLimit = 5 * time.Second

var evalMu sync.Mutex
var evaluators []*evaluator
var watchdogOnce sync.Once

func newEvaluator() *evaluator {
	e := &evaluator{}
	evalMu.Lock()
	evaluators = append(evaluators, e)
	evalMu.Unlock()
	watchdogOnce.Do(func() {
		go func() {
			for {
				time.Sleep(500 * time.Millisecond)
				now := time.Now().UnixNano()
				evalMu.Lock()
				for _, e := range evaluators {
					st := atomic.LoadInt64(&e.start)
					if st != 0 && now-st > atomic.LoadInt64(&e.limit) {
						l, _ := e.line.Load().(string)
						fmt.Printf("STUCK %s\n", l)
						os.Stdout.Sync()
						os.Exit(3)
					}
				}
				evalMu.Unlock()
			}
		}()
	})
	return e
}

// begin/end bracket an arbitrary piece of work on input s for the watchdog.
func (e *evaluator) begin(s string) { e.beginLimit(s, callLimit) }

func (e *evaluator) beginLimit(s string, limit time.Duration) {
	if len(s) > 4096 {
		e.line.Store(fmt.Sprintf("input-long len=%d prefix=%s", len(s), hx(s[:64])))
	} else {
		e.line.Store("input " + hx(s))
	}
	atomic.StoreInt64(&e.limit, int64(limit))
	atomic.StoreInt64(&e.start, time.Now().UnixNano())
}

func (e *evaluator) end() { atomic.StoreInt64(&e.start, 0) }

// Eval evaluates one operation on the real package.
func (e *evaluator) Eval(o Op, line string) string {
	e.line.Store(line)
	atomic.StoreInt64(&e.limit, int64(callLimit))
	atomic.StoreInt64(&e.start, time.Now().UnixNano())
	r := o.evalRaw()
	atomic.StoreInt64(&e.start, 0)
	return r
}

// c03ListMagic marks the pseudo-inputs of stream g3 that ask both sides for the grammar lists of C03.
const c03ListMagic = "\x00\x00c03-grammar-list:"

// obsC03List prints one of the grammar lists of C03 (skeletons with their words joined by one space).
func obsC03List(kind string) string {
	var l []string
	switch kind {
	case "sk":
		l = c03Skeletons
	case "pr":
		l = c03Prefixes
	case "tl":
		l = c03Tails
	case "sp":
		l = c03Seps
	case "ps":
		l = c03ParenSkeletons
	case "pp":
		l = c03ParenPrefixes
	case "tr":
		l = c03Truncations()
	}
	parts := make([]string, len(l))
	for i, x := range l {
		parts[i] = hx(x)
	}
	return strings.Join(parts, ";")
}
