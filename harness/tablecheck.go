package main

// C20 on the compiled tables: well-formedness of every entry and presence of every baseline
// entry. The same facts are theorems over the regenerated Lean tables; this lists offenders.

import (
	"encoding/json"
	"flag"
	"fmt"
	"os"
	"sort"
	"strings"

	li "github.com/corazawaf/libinjection-go"
)

type baselineTables struct {
	Keywords    map[string]int `json:"keywords"`
	BlackTags   []string       `json:"black_tags"`
	Blacks      map[string]int `json:"blacks"`
	BlackEvents map[string]int `json:"black_events"`
}

func currentTables() baselineTables {
	t := liTables()
	b := baselineTables{Keywords: map[string]int{}, Blacks: map[string]int{}, BlackEvents: map[string]int{}}
	for k, v := range t.Keywords {
		b.Keywords[hx(k)] = int(v)
	}
	for _, s := range t.BlackTags {
		b.BlackTags = append(b.BlackTags, hx(s))
	}
	sort.Strings(b.BlackTags)
	for _, e := range t.Blacks {
		b.Blacks[hx(e.Name)] = e.Type
	}
	for _, e := range t.BlackEvents {
		b.BlackEvents[hx(e.Name)] = e.Type
	}
	return b
}

func upperNulFree(s string) bool {
	for i := 0; i < len(s); i++ {
		if s[i] == 0 || (s[i] >= 'a' && s[i] <= 'z') {
			return false
		}
	}
	return true
}

func cmdTableCheck(args []string) {
	fs := flag.NewFlagSet("tablecheck", flag.ExitOnError)
	var base, out, dump string
	fs.StringVar(&base, "baseline", "", "")
	fs.StringVar(&out, "out", "", "")
	fs.StringVar(&dump, "dump", "", "write the current tables as a baseline file")
	fs.Parse(args)
	if dump != "" {
		b, _ := json.MarshalIndent(currentTables(), "", " ")
		os.WriteFile(dump, b, 0o644)
		return
	}
	r := newReport("C20", "every entry of the five shipped tables against the well-formedness predicate; every entry of the pinned baseline against the current tables; exhaustive; the tables are checked in a fresh process and again after warm-up traffic (every keyword, tag, event and attribute in lower case through both detectors)")
	fresh := currentTables()
	checkTables(r, "fresh")
	// warm-up traffic, then the same check again: the shipped tables must not change at run time
	tableDrivenSQL(func(s string) { li.IsSQLi(s); li.IsSQLi(strings.ToUpper(s)) })
	tableDrivenHTML(func(s string) { li.IsXSS(s); li.IsXSS(strings.ToUpper(s)) })
	for _, s := range corpus("sqli") {
		li.IsSQLi(s)
	}
	checkTables(r, "after-traffic")
	after := currentTables()
	diffTables(r, fresh, after)
	if base != "" {
		checkBaseline(r, base)
	}
	bts, _ := json.MarshalIndent(r, "", " ")
	if out != "" {
		os.WriteFile(out, bts, 0o644)
	}
	fmt.Println(string(bts))
}

func diffTables(r *report, a, b baselineTables) {
	for k, v := range b.Keywords {
		if av, ok := a.Keywords[k]; !ok {
			r.fail("table-changed-at-run-time", readHexString(k), fmt.Sprintf("keyword %q (class %q) appeared in the shipped table after traffic", readHexString(k), v))
		} else if av != v {
			r.fail("table-changed-at-run-time", readHexString(k), fmt.Sprintf("keyword %q changed class %q -> %q after traffic", readHexString(k), av, v))
		}
	}
	for k := range a.Keywords {
		if _, ok := b.Keywords[k]; !ok {
			r.fail("table-changed-at-run-time", readHexString(k), "keyword disappeared after traffic")
		}
	}
	if len(a.BlackTags) != len(b.BlackTags) || len(a.Blacks) != len(b.Blacks) || len(a.BlackEvents) != len(b.BlackEvents) {
		r.fail("table-changed-at-run-time", "", "an XSS list changed size after traffic")
	}
}

func checkTables(r *report, phase string) {
	t := liTables()
	for k, v := range t.Keywords {
		bad := ""
		switch {
		case len(k) < 1 || len(k) > 31:
			bad = "key length not in 1..31"
		case !upperNulFree(k) || strings.ToUpper(k) != k:
			bad = "key is not its own upper-case form (unreachable by the case-folding look-up)"
		case strings.IndexByte(classAlphabet, v) < 0:
			bad = "value is not a class character"
		case v == 'f' && len(k) < 2:
			bad = "function name shorter than 2"
		}
		if v == 'F' && bad == "" {
			if len(k) < 2 || len(k) > 6 || k[0] != '0' {
				bad = "fingerprint key is not 0 + 1..5 class characters"
			} else {
				for i := 1; i < len(k); i++ {
					lowered := k[i]
					if lowered >= 'A' && lowered <= 'Z' {
						lowered += 32
					}
					if strings.IndexByte(classAlphabet, k[i]) < 0 && strings.IndexByte(classAlphabet, lowered) < 0 {
						bad = "fingerprint key has a non-class character"
					}
				}
			}
		}
		if bad != "" {
			r.fail("keyword-malformed", k, fmt.Sprintf("[%s] %q -> %q: %s", phase, k, v, bad))
		}
		r.eval(k, true)
	}
	for _, s := range t.BlackTags {
		if !upperNulFree(s) || s == "" {
			r.fail("black-tag-malformed", s, "not upper-case / NUL-free")
		}
		r.eval("tag:"+s, true)
	}
	for _, e := range t.Blacks {
		if !upperNulFree(e.Name) || e.Name == "" || e.Type < 1 || e.Type > 4 {
			r.fail("black-attribute-malformed", e.Name, fmt.Sprintf("type %d", e.Type))
		}
		r.eval("attr:"+e.Name, true)
	}
	for _, e := range t.BlackEvents {
		if !upperNulFree(e.Name) || e.Name == "" || e.Type < 1 || e.Type > 4 {
			r.fail("black-event-malformed", e.Name, fmt.Sprintf("type %d", e.Type))
		}
		r.eval("event:"+e.Name, true)
	}
	if len(t.HexMap) != 256 {
		r.fail("hex-map-size", "", fmt.Sprint(len(t.HexMap)))
	}
}

func checkBaseline(r *report, base string) {
	{
		var b baselineTables
		raw, err := os.ReadFile(base)
		if err != nil || json.Unmarshal(raw, &b) != nil {
			r.fail("baseline-unreadable", base, fmt.Sprint(err))
		}
		cur := currentTables()
		unhex := func(h string) string {
			if h == "-" {
				return ""
			}
			bs := readHexString(h)
			return bs
		}
		for k, v := range b.Keywords {
			if cv, ok := cur.Keywords[k]; !ok {
				r.fail("baseline-keyword-missing", unhex(k), fmt.Sprintf("%q (class %q) is no longer in the keyword table", unhex(k), v))
			} else if cv != v {
				r.fail("baseline-keyword-reclassified", unhex(k), fmt.Sprintf("%q: %q -> %q", unhex(k), v, cv))
			}
			r.eval("base:"+k, true)
		}
		curTags := map[string]bool{}
		for _, s := range cur.BlackTags {
			curTags[s] = true
		}
		for _, s := range b.BlackTags {
			if !curTags[s] {
				r.fail("baseline-tag-missing", unhex(s), "")
			}
			r.eval("basetag:"+s, true)
		}
		for k, v := range b.Blacks {
			if cv, ok := cur.Blacks[k]; !ok || cv != v {
				r.fail("baseline-attribute-missing-or-changed", unhex(k), fmt.Sprintf("baseline type %d, now %v (present=%v)", v, cv, ok))
			}
			r.eval("baseattr:"+k, true)
		}
		for k, v := range b.BlackEvents {
			if cv, ok := cur.BlackEvents[k]; !ok || cv != v {
				r.fail("baseline-event-missing-or-changed", unhex(k), fmt.Sprintf("baseline type %d, now %v (present=%v)", v, cv, ok))
			}
			r.eval("baseevent:"+k, true)
		}
	}
}

func readHexString(h string) string {
	var out []byte
	for i := 0; i+1 < len(h); i += 2 {
		var v byte
		fmt.Sscanf(h[i:i+2], "%02x", &v)
		out = append(out, v)
	}
	return string(out)
}
