package main

// vharness gen: produce operations and the implementation's observations, sharded.

import (
	"bufio"
	"encoding/json"
	"flag"
	"fmt"
	"hash/fnv"
	"math/rand"
	"os"
	"path/filepath"
	"sort"
	"strings"
	"sync"
)

var sqlModes = []int{1 | 8, 1 | 16, 2 | 8, 2 | 16, 4 | 8, 4 | 16}

var xssSeeds = []string{"<script>alert(1);</script>", "><script>alert(1);</script>", "x ><script>alert(1);</script>", "' ><script>alert(1);</script>",
	"\"><script>alert(1);</script>", "onerror=alert(1)>", "x onerror=alert(1);>", "x' onerror=alert(1);>", "x\" onerror=alert(1);>",
	"<a href=\"javascript:alert(1)\">", "<a href='javascript:alert(1)'>", "<a href=javascript:alert(1)>", "<a href  =   javascript:alert(1); >",
	"<a href=\"  javascript:alert(1);\" >", "<xss class=progress-bar-animated onanimationstart=alert(1)>", "myvar=onfoobar==", "onY29va2llcw==",
	"<HTML xmlns:xss><?import namespace=\"xss\" implementation=\"%(htc)s\"><xss:xss>XSS</xss:xss></HTML>", "<SPAN DATASRC=\"#xss\" DATAFLD=\"B\" DATAFORMATAS=\"HTML\"></SPAN>",
	"javascript:/*--></title></style></textarea></script></xmp><svg/onload='+/\"/+/onmouseover=1/+/[*/[]/+alert(1)//'>"}

// namedRefs: HTML named character references (the decoder of the reference algorithm handles numeric ones only)
var namedRefs = []string{"&Tab;", "&NewLine;", "&colon;", "&lpar;", "&rpar;", "&amp;", "&lt;", "&gt;", "&quot;", "&apos;", "&nbsp;",
	"&sol;", "&semi;", "&num;", "&excl;", "&equals;", "&tab;", "&newline;", "&Tab", "&colon", "&AMP;", "&LT;", "&GT;", "&zwnj;", "&shy;"}

type genCfg struct {
	stream  string
	tier    string
	seed    int64
	out     string
	shards  int
	ops     map[string]bool
	scale   float64
	careful bool
}

// inputs calls emit for every generated input of the stream.
func (c *genCfg) inputs(emit func(string)) {
	rng := rand.New(rand.NewSource(c.seed*7919 + int64(len(c.stream))))
	thorough := c.tier == "thorough"
	n := func(quick, thor int) int {
		v := quick
		if thorough {
			v = thor
		}
		return int(float64(v) * c.scale)
	}
	switch c.stream {
	case "sq": // SQL inputs
		cs := corpus("sqli")
		for _, s := range cs {
			emit(s)
		}
		if thorough {
			exhaustive("", sqlAlpha, 4, emit)
		} else {
			exhaustive("", sqlAlpha, 3, emit)
		}
		truncations(sqlTemplates, sqlDecoys, emit)
		byteSweep(sqlSweepSeeds, emit)
		longPadded(emit)
		twinSweep(sqlSweepSeeds, "'\"`-/#*;=()., ", emit)
		sqlLengthBoundaries(emit)
		tableDrivenSQL(emit)
		for i, k := 0, n(120000, 2500000); i < k; i++ {
			emit(fragGen(rng, sqlFrag, sqlAlpha, 9))
		}
		for i, k := 0, n(40000, 800000); i < k && len(cs) > 0; i++ {
			emit(mutate(rng, cs[rng.Intn(len(cs))], sqlAlpha))
		}
	case "hx": // HTML inputs
		cs := append(corpus("xss"), xssSeeds...)
		for _, s := range cs {
			emit(s)
		}
		if thorough {
			exhaustive("", htmlAlpha, 5, emit)
			exhaustive("", htmlStruct, 6, emit)
		} else {
			exhaustive("", htmlAlpha, 4, emit)
		}
		for _, pre := range []string{"<![CDATA[", "<!--", "<%", "<!doctype", "<a b=", "<a ", "<?", "</", "<!"} {
			if thorough {
				exhaustive(pre, htmlStruct, 4, emit)
			} else {
				exhaustive(pre, htmlStruct, 3, emit)
			}
		}
		truncations(htmlTemplates, htmlDecoys, emit)
		byteSweep(htmlSweepSeeds, emit)
		twinSweep(htmlSweepSeeds, "<>='\"`/!-%?&#; ", emit)
		tableDrivenHTML(emit)
		lateVectorsHTML(thorough, emit)
		for i, k := 0, n(150000, 3000000); i < k; i++ {
			emit(fragGen(rng, htmlFrag, htmlAlpha, 8))
		}
		for i, k := 0, n(40000, 800000); i < k; i++ {
			emit(mutate(rng, cs[rng.Intn(len(cs))], htmlAlpha))
		}
	case "xu": // XSS unit inputs: decoder, URL, tag, attribute classifiers
		for _, s := range corpus("xssunit") {
			emit(s)
		}
		byteSweep(unitSweepSeeds, emit)
		twinSweep(unitSweepSeeds, "&#;:-", emit)
		unitAlpha := []byte("&#xX;0169aAfFgjJ:\x00\n \x7f\xe9-")
		if thorough {
			exhaustive("", unitAlpha, 5, emit)
		} else {
			exhaustive("", unitAlpha, 4, emit)
		}
		t := liTables()
		for _, name := range t.BlackTags {
			for _, v := range nameVariants(rng, name) {
				emit(v)
			}
		}
		for _, b := range t.Blacks {
			for _, v := range nameVariants(rng, b.Name) {
				emit(v)
			}
		}
		for _, b := range t.BlackEvents {
			for _, v := range nameVariants(rng, "ON"+b.Name) {
				emit(v)
			}
		}
		for i, k := 0, n(100000, 2000000); i < k; i++ {
			emit(fragGen(rng, htmlFrag, unitAlpha, 5))
		}
		for i, k := 0, n(60000, 1000000); i < k; i++ {
			emit(encodeScheme(rng))
		}
	case "sc": // parseStringCore inputs
		coreAlpha := []byte("'\"`\\a ")
		if thorough {
			exhaustive("", coreAlpha, 7, emit)
		} else {
			exhaustive("", coreAlpha, 6, emit)
		}
		for _, k := range runLengths { // runs of escapes / delimiters before a delimiter
			for _, d := range []string{"'", "\"", "`"} {
				bs := strings.Repeat("\\", k)
				dd := strings.Repeat(d, k)
				for _, t := range []string{d + bs + d + "x" + d + "1", bs + d + "x" + d, "a" + bs + d + "x" + d + "1", d + "a" + bs + d + "b" + d,
					d + dd + "x" + d, dd + "x", "a" + dd + "x" + d, d + bs + dd + "x" + d, bs, dd} {
					emit(t)
				}
			}
		}
		for i, k := 0, n(50000, 1000000); i < k; i++ {
			m := 1 + rng.Intn(24)
			b := make([]byte, m)
			for j := range b {
				b[j] = coreAlpha[rng.Intn(len(coreAlpha))]
			}
			s := string(b)
			if rng.Intn(2) == 0 { // tail duplication
				i := rng.Intn(len(s))
				s += s[i:]
			}
			emit(s)
		}
	case "g3":
		// the grammar lists themselves: the Lean specification (Spec/SqliGrammar.lean) must list the same grammar
		for _, k := range []string{"sk", "pr", "tl", "sp", "ps", "pp", "tr"} {
			emit(c03ListMagic + k)
		}
		oc := &oracleCfg{prop: "C03", tier: c.tier, seed: c.seed, scale: c.scale}
		enumC03(oc, func(in, what string) { emit(in) })
	case "g4":
		oc := &oracleCfg{prop: "C04", tier: c.tier, seed: c.seed, scale: c.scale}
		enumC04(oc, func(fam, in string) { emit(in) })
	case "g14":
		oc := &oracleCfg{prop: "C14", tier: c.tier, seed: c.seed, scale: c.scale}
		enumC14(oc, func(fam, in string, nt bool) { emit(in) })
	case "g15":
		oc := &oracleCfg{prop: "C15", tier: c.tier, seed: c.seed, scale: c.scale}
		genC15(oc)(emit)
	default:
		panic("unknown stream " + c.stream)
	}
}

func nameVariants(rng *rand.Rand, name string) []string {
	lower := strings.ToLower(name)
	alt := []byte(lower)
	for i := range alt {
		if i%2 == 0 && alt[i] >= 'a' && alt[i] <= 'z' {
			alt[i] -= 32
		}
	}
	out := []string{name, lower, string(alt)}
	if len(name) > 1 {
		out = append(out, name[:1]+"\x00"+name[1:], lower[:len(lower)-1]+"\x00"+lower[len(lower)-1:], name[:len(name)-1], name+"x", "x"+name)
	}
	return out
}

var schemes = []string{"javascript:", "vbscript:", "data:", "view-source:", "java", "DATA", "jav", "dat", "livescript:"}

// encodeScheme: a scheme under a random mix of character-reference encodings, junk and NUL/LF.
func encodeScheme(rng *rand.Rand) string {
	var sb strings.Builder
	for k := rng.Intn(3); k > 0; k-- {
		sb.WriteByte([]byte{0, 1, 9, 10, 32, 0x7f, 0x80, 0xe9, 0xff}[rng.Intn(9)])
	}
	sc := schemes[rng.Intn(len(schemes))]
	for i := 0; i < len(sc); i++ {
		c := sc[i]
		if rng.Intn(2) == 0 && c >= 'a' && c <= 'z' {
			c -= 32
		}
		switch rng.Intn(8) {
		case 0:
			fmt.Fprintf(&sb, "&#%d;", c)
		case 1:
			fmt.Fprintf(&sb, "&#%s%d;", strings.Repeat("0", rng.Intn(6)), c)
		case 2:
			fmt.Fprintf(&sb, "&#x%x;", c)
		case 3:
			fmt.Fprintf(&sb, "&#X%X;", c)
		case 4:
			fmt.Fprintf(&sb, "&#%d", c) // no semicolon: next byte decides
		case 5:
			fmt.Fprintf(&sb, "&#x%x", c)
		default:
			sb.WriteByte(c)
		}
		if rng.Intn(6) == 0 {
			sb.WriteByte([]byte{0, 10}[rng.Intn(2)])
		} else if rng.Intn(24) == 0 {
			// a named character reference: the reference algorithm knows none, so it stays literal text
			sb.WriteString(namedRefs[rng.Intn(len(namedRefs))])
		}
	}
	sb.WriteString([]string{"", "alert(1)", "x", ";", "&#", "&#x"}[rng.Intn(6)])
	return sb.String()
}

// opsFor expands one input into the operations of the stream.
func (c *genCfg) opsFor(s string, out []Op) []Op {
	switch c.stream {
	case "g3", "g14":
		if strings.HasPrefix(s, c03ListMagic) {
			out = append(out, Op{Kind: "c03l", S: s[len(c03ListMagic):]})
		} else {
			out = append(out, Op{Kind: "is", S: s})
		}
	case "g4":
		out = append(out, Op{Kind: "x", S: s})
	case "g15":
		for ctx := 0; ctx < 5; ctx++ {
			out = append(out, Op{Kind: "xc", A: ctx, S: s})
		}
		out = append(out, Op{Kind: "x", S: s})
	case "sq":
		for _, f := range sqlModes {
			if c.ops["tok"] {
				out = append(out, Op{Kind: "tok", A: f, S: s})
			}
			if c.ops["fp"] {
				out = append(out, Op{Kind: "fp", A: f, S: s})
			}
		}
		if c.ops["is"] {
			out = append(out, Op{Kind: "is", S: s})
		}
	case "hx":
		for ctx := 0; ctx < 5; ctx++ {
			if c.ops["h5"] {
				out = append(out, Op{Kind: "h5", A: ctx, S: s})
			}
			if c.ops["xc"] {
				out = append(out, Op{Kind: "xc", A: ctx, S: s})
			}
		}
		if c.ops["x"] {
			out = append(out, Op{Kind: "x", S: s})
		}
	case "xu":
		for _, k := range []string{"dec", "url", "tag", "attr"} {
			if c.ops[k] {
				out = append(out, Op{Kind: k, S: s})
			}
		}
		if c.ops["esw"] {
			out = append(out, Op{Kind: "esw", S: s, S2: "JAVA"})
		}
	case "sc":
		if c.ops["strcore"] {
			for _, d := range []int{'\'', '"', '`'} {
				for off := 0; off <= 2; off++ {
					out = append(out, Op{Kind: "strcore", A: off, B: d, S: s})
				}
			}
		}
	}
	return out
}

type genSummary struct {
	Stream     string         `json:"stream"`
	Inputs     int            `json:"inputs"`
	Distinct   int            `json:"distinct_inputs"`
	Ops        int            `json:"ops"`
	NonTrivial int            `json:"distinct_nontrivial"`
	LenHist    map[string]int `json:"length_histogram"`
	Status     map[string]int `json:"status_counts"`
	Samples    []string       `json:"samples"`
	Timeouts   []string       `json:"timeouts"`
}

func lenBucket(n int) string {
	switch {
	case n <= 4:
		return fmt.Sprintf("%d", n)
	case n <= 8:
		return "5-8"
	case n <= 16:
		return "9-16"
	case n <= 32:
		return "17-32"
	case n <= 64:
		return "33-64"
	case n <= 256:
		return "65-256"
	default:
		return ">256"
	}
}

func nontrivialObs(o Op, obs string) bool {
	switch o.Kind {
	case "tok": // as-is ANSI mode yields at least two tokens
		return o.A == 9 && strings.Count(obs, ";") >= 2
	case "h5": // data state yields at least two tokens
		return o.A == 0 && strings.Count(obs, ";") >= 1
	case "dec":
		return strings.HasSuffix(obs, " 1") == false
	case "strcore":
		return true
	case "fp":
		return o.A == 9 && strings.Count(obs[:strings.IndexByte(obs, '|')], ";") >= 1
	default:
		return obs == "true" || strings.HasPrefix(obs, "true") || (o.Kind == "attr" && obs != "0")
	}
}

func cmdGen(args []string) {
	fs := flag.NewFlagSet("gen", flag.ExitOnError)
	c := &genCfg{ops: map[string]bool{}}
	var ops string
	fs.StringVar(&c.stream, "stream", "sq", "")
	fs.StringVar(&c.tier, "tier", "quick", "")
	fs.Int64Var(&c.seed, "seed", 1, "")
	fs.StringVar(&c.out, "out", "", "")
	fs.IntVar(&c.shards, "shards", 16, "")
	fs.StringVar(&ops, "ops", "", "")
	fs.Float64Var(&c.scale, "scale", 1, "")
	fs.BoolVar(&c.careful, "careful", false, "flush every op before evaluating it")
	fs.Parse(args)
	for _, o := range strings.Split(ops, ",") {
		c.ops[o] = true
	}
	os.MkdirAll(c.out, 0o755)

	type shard struct {
		ch chan string
	}
	sum := genSummary{Stream: c.stream, LenHist: map[string]int{}, Status: map[string]int{}}
	var mu sync.Mutex
	var wg sync.WaitGroup
	chans := make([]chan string, c.shards)
	for i := 0; i < c.shards; i++ {
		chans[i] = make(chan string, 4096)
		wg.Add(1)
		go func(i int) {
			defer wg.Done()
			fo, _ := os.Create(filepath.Join(c.out, fmt.Sprintf("ops.%d", i)))
			fi, _ := os.Create(filepath.Join(c.out, fmt.Sprintf("impl.%d", i)))
			wo := bufio.NewWriterSize(fo, 1<<20)
			wi := bufio.NewWriterSize(fi, 1<<20)
			ev := newEvaluator()
			var buf []Op
			nOps, nNon := 0, 0
			status := map[string]int{}
			var timeouts []string
			for s := range chans[i] {
				buf = c.opsFor(s, buf[:0])
				non := false
				for _, o := range buf {
					line := o.Line()
					wo.WriteString(line)
					wo.WriteByte('\n')
					if c.careful {
						wo.Flush()
					}
					obs := ev.Eval(o, line)
					wi.WriteString(obs)
					wi.WriteByte('\n')
					if c.careful {
						wi.Flush()
					}
					nOps++
					switch {
					case obs == "PANIC", obs == "RUNAWAY", strings.HasPrefix(obs, "TIMEOUT"):
						status[obs]++
						if len(timeouts) < 20 {
							timeouts = append(timeouts, obs+" "+line)
						}
					default:
						if nontrivialObs(o, obs) {
							non = true
						}
					}
				}
				if non {
					nNon++
				}
			}
			wo.Flush()
			wi.Flush()
			fo.Close()
			fi.Close()
			mu.Lock()
			sum.Ops += nOps
			sum.NonTrivial += nNon
			for k, v := range status {
				sum.Status[k] += v
			}
			sum.Timeouts = append(sum.Timeouts, timeouts...)
			mu.Unlock()
		}(i)
	}
	seen := map[uint64]struct{}{}
	c.inputs(func(s string) {
		sum.Inputs++
		h := fnv.New64a()
		h.Write([]byte(s))
		k := h.Sum64()
		if _, ok := seen[k]; ok {
			return // duplicates are not re-evaluated
		}
		seen[k] = struct{}{}
		sum.Distinct++
		sum.LenHist[lenBucket(len(s))]++
		if len(sum.Samples) < 8 && (sum.Distinct%9973 == 7 || sum.Distinct < 3) {
			sum.Samples = append(sum.Samples, hx(s))
		}
		chans[k%uint64(c.shards)] <- s
	})
	for _, ch := range chans {
		close(ch)
	}
	wg.Wait()
	b, _ := json.Marshal(sum)
	os.WriteFile(filepath.Join(c.out, "summary.json"), b, 0o644)
	fmt.Println(string(b))
}

// tableDrivenSQL: every keyword / phrase of the shipped table (not the fingerprints) in a few
// syntactic positions, lower case (the case oracles re-assign the case).
func tableDrivenSQL(emit func(string)) {
	t := liTables()
	var keys []string
	for k, v := range t.Keywords {
		if v != 'F' {
			keys = append(keys, k)
		}
	}
	sort.Strings(keys)
	for _, k := range keys {
		w := strings.ToLower(k)
		emit(w)
		emit("1 " + w + " 1")
		emit(w + "(1)")
		emit("1;" + w + " 1")
		emit("select " + w + " from t")
		emit("1 " + w + " select 1 --")
		emit("x' " + w + " 'a'='a")
	}
}

// tableDrivenHTML: every black tag, event and attribute of the shipped lists in a few syntactic
// positions, lower case.
func tableDrivenHTML(emit func(string)) {
	t := liTables()
	for _, tg := range t.BlackTags {
		w := strings.ToLower(tg)
		emit("<" + w + ">")
		emit("<" + w + " x=y>")
		emit("x'><" + w + "/")
		emit("</" + w + " x>")
	}
	for _, e := range t.BlackEvents {
		w := "on" + strings.ToLower(e.Name)
		emit("<x " + w + "=y>")
		emit("x " + w + "=y")
		emit("x' " + w + "='y")
		emit("<x/" + w + " = y>")
	}
	for _, a := range t.Blacks {
		w := strings.ToLower(a.Name)
		emit("<a " + w + "=javascript:x>")
		emit("<a " + w + "='vbscript:x'>")
		emit("x\" " + w + "=\"data:x")
		emit("<a " + w + "=x>")
		emit("<a " + w + "=onclick>")
	}
}


// lateVectorsHTML: a vector after many tokens (a token or byte budget in the detector or in the
// tokenizer shows only on long inputs; sizes straddle the powers of two)
func lateVectorsHTML(thorough bool, emit func(string)) {
	top := 11
	if thorough {
		top = 14
	}
	fams := [][3]string{
		{"", "<b>", "<script>alert(1)</script>"},
		{"", "<b c=d>", "<p onclick=x>"},
		{"", "a ", "<svg/onload=1>"},
		{"", "x=1 ", "onerror=alert(1)"},
		{"' ", "x=1 ", "y onerror=alert(1)"},
		{"\" ", "x=1 ", "y onerror=alert(1)"},
		{"` ", "x=1 ", "y onerror=alert(1)"},
	}
	for k := 4; k <= top; k++ {
		for _, n := range []int{1<<k - 1, 1 << k, 1<<k + 1} {
			for _, f := range fams {
				emit(f[0] + strings.Repeat(f[1], n) + f[2])
			}
		}
	}
}
